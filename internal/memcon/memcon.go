// Package memcon is an in-memory console.Console whose other end is a
// refterm.Terminal. Writes by the application are fed synchronously to the
// terminal; the terminal's replies and the harness's injected input are queued
// for Read.
package memcon

import (
	"io"
	"sync"
	"time"

	"github.com/containerd/console"

	"verif/internal/refterm"
)

// Sink consumes what the application writes and yields reply bytes.
type Sink interface {
	Write(p []byte) (int, error)
	TakeReplies() []byte
}

// Console implements console.Console.
type Console struct {
	mu     sync.Mutex
	cond   *sync.Cond
	in     []byte
	closed bool

	Term *refterm.Terminal // may be nil when Sink is set
	Sink Sink

	cols, rows int

	// observation
	Writes      [][]byte // copy of every Write (bounded by KeepWrites)
	KeepWrites  int
	NWrites     int
	NBytes      int
	RawCalls    int
	ResetCalls  int
	CloseCalls  int
	ReadsServed int

	// OnWrite, if set, is called (under the console lock) after the terminal
	// has processed a write; it may inspect the terminal.
	OnWrite func(p []byte)
	// ReplyFilter, if set, decides what to do with terminal replies: it
	// returns the bytes to deliver now.
	ReplyFilter func(reply []byte) []byte
	// ReadChunk limits the number of bytes returned per Read (0 = no limit).
	ReadChunk int
	// FailWrites makes Write return an error after the terminal saw the data.
	FailWrites error
	// PostWriteDelay, if set, is asked (under the console lock) how long Write
	// should linger after the terminal has processed p and its replies have
	// been queued for reading.
	PostWriteDelay func(p []byte) time.Duration
}

var _ console.Console = (*Console)(nil)

// New creates a console attached to a terminal.
func New(t *refterm.Terminal) *Console {
	c := &Console{Term: t, cols: t.Cols, rows: t.Rows, KeepWrites: 0}
	c.cond = sync.NewCond(&c.mu)
	return c
}

// NewSink creates a console attached to an arbitrary sink.
func NewSink(s Sink, cols, rows int) *Console {
	c := &Console{Sink: s, cols: cols, rows: rows}
	c.cond = sync.NewCond(&c.mu)
	return c
}

func (c *Console) sink() Sink {
	if c.Sink != nil {
		return c.Sink
	}
	return c.Term
}

func (c *Console) Read(p []byte) (int, error) {
	c.mu.Lock()
	defer c.mu.Unlock()
	for len(c.in) == 0 && !c.closed {
		c.cond.Wait()
	}
	if len(c.in) == 0 && c.closed {
		return 0, io.EOF
	}
	n := len(p)
	if c.ReadChunk > 0 && n > c.ReadChunk {
		n = c.ReadChunk
	}
	n = copy(p[:n], c.in)
	c.in = c.in[n:]
	c.ReadsServed++
	return n, nil
}

func (c *Console) Write(p []byte) (int, error) {
	n, err, d := c.write(p)
	if d > 0 {
		// the terminal has answered already; the writer is held up before it
		// returns to its caller (slow tty, descheduled thread)
		time.Sleep(d)
	}
	return n, err
}

func (c *Console) write(p []byte) (int, error, time.Duration) {
	c.mu.Lock()
	defer c.mu.Unlock()
	var delay time.Duration
	if c.PostWriteDelay != nil {
		delay = c.PostWriteDelay(p)
	}
	c.NWrites++
	c.NBytes += len(p)
	if c.KeepWrites > 0 && len(c.Writes) < c.KeepWrites {
		c.Writes = append(c.Writes, append([]byte(nil), p...))
	}
	s := c.sink()
	s.Write(p)
	if c.OnWrite != nil {
		c.OnWrite(p)
	}
	rep := s.TakeReplies()
	if c.ReplyFilter != nil && len(rep) > 0 {
		rep = c.ReplyFilter(rep)
	}
	if len(rep) > 0 {
		c.in = append(c.in, rep...)
		c.cond.Broadcast()
	}
	if c.FailWrites != nil {
		return 0, c.FailWrites, delay
	}
	return len(p), nil, delay
}

// Inject queues input bytes as if the user/terminal had sent them.
func (c *Console) Inject(p []byte) {
	c.mu.Lock()
	c.in = append(c.in, p...)
	c.cond.Broadcast()
	c.mu.Unlock()
}

// PendingInput reports how many injected bytes have not been read yet.
func (c *Console) PendingInput() int {
	c.mu.Lock()
	defer c.mu.Unlock()
	return len(c.in)
}

// With runs f with the console lock held (to inspect the terminal safely).
func (c *Console) With(f func()) {
	c.mu.Lock()
	defer c.mu.Unlock()
	f()
}

// SetSize changes the size reported by Size(); when the terminal has in-band
// resize enabled its report is queued as input.
func (c *Console) SetSize(cols, rows int) {
	c.mu.Lock()
	c.cols, c.rows = cols, rows
	if c.Term != nil {
		c.Term.Resize(cols, rows)
		rep := c.Term.TakeReplies()
		if len(rep) > 0 {
			c.in = append(c.in, rep...)
			c.cond.Broadcast()
		}
	}
	c.mu.Unlock()
}

func (c *Console) Close() error {
	c.mu.Lock()
	c.closed = true
	c.CloseCalls++
	c.cond.Broadcast()
	c.mu.Unlock()
	return nil
}

// Reopen makes a closed console readable again (harness use).
func (c *Console) Reopen() {
	c.mu.Lock()
	c.closed = false
	c.mu.Unlock()
}

func (c *Console) Fd() uintptr  { return ^uintptr(0) }
func (c *Console) Name() string { return "memcon" }

func (c *Console) Resize(ws console.WinSize) error {
	c.SetSize(int(ws.Width), int(ws.Height))
	return nil
}
func (c *Console) ResizeFrom(console.Console) error { return nil }
func (c *Console) SetRaw() error {
	c.mu.Lock()
	c.RawCalls++
	c.mu.Unlock()
	return nil
}
func (c *Console) DisableEcho() error { return nil }
func (c *Console) Reset() error {
	c.mu.Lock()
	c.ResetCalls++
	c.mu.Unlock()
	return nil
}
func (c *Console) Size() (console.WinSize, error) {
	c.mu.Lock()
	defer c.mu.Unlock()
	return console.WinSize{Width: uint16(c.cols), Height: uint16(c.rows)}, nil
}
