// Package termgen generates child-output byte streams for the embedded
// terminal emulator: grammar-generated control sequences over the whole
// vocabulary the emulator implements, with boundary parameters, curated text
// and raw fuzz bytes.
package termgen

import (
	"fmt"
	"strings"

	"verif/internal/gen"
	"verif/internal/widthtab"
)

// Param draws a parameter from {omitted, 0, 1, size-1, size, size+1, small,
// 65535, 2^31, overflowing 20-digit, 20-digit values that wrap a 64-bit
// integer to -1, -3 and the smallest value}.
func Param(r gen.R, size int) string {
	switch r.Intn(16) {
	case 14:
		return []string{"18446744073709551615", "18446744073709551613"}[r.Intn(2)]
	case 15:
		return []string{"9223372036854775808", "18446744073709551615"}[r.Intn(2)]
	case 0:
		return ""
	case 1:
		return "0"
	case 2, 3:
		return "1"
	case 4:
		return fmt.Sprint(max(size-1, 0))
	case 5:
		return fmt.Sprint(size)
	case 6:
		return fmt.Sprint(size + 1)
	case 7:
		return "65535"
	case 8:
		return "2147483648"
	case 9:
		return "99999999999999999999"
	default:
		return fmt.Sprint(r.Intn(size + 3))
	}
}

func max(a, b int) int {
	if a > b {
		return a
	}
	return b
}

var csiOne = []string{"@", "A", "B", "C", "D", "E", "F", "G", "I", "J", "K", "L", "M", "P", "S", "T", "X", "Z", "`", "a", "b", "d", "e", "g", "n", " q"}
var escFinals = []string{"7", "8", "D", "E", "H", "M", "N", "O", "=", ">", "(0", ")0", "*0", "+0", "(B", ")B", "*B", "+B", "#8"}
var c0s = []byte{0x07, 0x08, 0x09, 0x0a, 0x0b, 0x0c, 0x0d, 0x0e, 0x0f, 0x00}
var decModes = []int{1, 2, 3, 4, 5, 6, 7, 8, 25, 1000, 1002, 1003, 1006, 1007, 1049, 2004, 2026, 9999}
var ansiModes = []int{2, 4, 12, 20}

// Text draws a short printable string from the curated table.
func Text(r gen.R) string {
	var sb strings.Builder
	for k := r.Range(1, 8); k > 0; k-- {
		switch r.Intn(8) {
		case 0:
			sb.WriteString(widthtab.Table[r.Intn(len(widthtab.Table))].G)
		case 1:
			sb.WriteString(widthtab.Odd[r.Intn(len(widthtab.Odd))].G)
		default:
			sb.WriteByte(byte(r.Range(0x20, 0x7e)))
		}
	}
	return sb.String()
}

// SGR draws an SGR sequence.
func SGR(r gen.R) string {
	var ps []string
	for k := r.Intn(4); k >= 0; k-- {
		switch r.Intn(12) {
		case 0:
			ps = append(ps, "")
		case 1:
			ps = append(ps, fmt.Sprint(r.Intn(110)))
		case 2:
			ps = append(ps, fmt.Sprintf("38;5;%d", r.Intn(256)))
		case 3:
			ps = append(ps, fmt.Sprintf("48;2;%d;%d;%d", r.Intn(256), r.Intn(256), r.Intn(256)))
		case 4:
			ps = append(ps, fmt.Sprintf("38:2:%d:%d:%d", r.Intn(256), r.Intn(256), r.Intn(256)))
		case 5:
			ps = append(ps, fmt.Sprintf("58:5:%d", r.Intn(256)))
		case 6:
			ps = append(ps, fmt.Sprintf("4:%d", r.Intn(7)))
		case 7:
			ps = append(ps, []string{"38", "48;5", "38;2;1", "58:2", "38:5", "48:2:1:2", "38:2::1:2:3", "58;2;300;400;500"}[r.Intn(8)])
		case 8:
			// an extended colour cut short after any field, in either notation,
			// wherever it stands in the list
			sel := []string{"38", "48", "58"}[r.Intn(3)]
			full := []string{sel, "2", fmt.Sprint(r.Intn(256)), fmt.Sprint(r.Intn(256)), fmt.Sprint(r.Intn(256))}
			if r.Intn(3) == 0 {
				full = []string{sel, "5", fmt.Sprint(r.Intn(256))}
			}
			sep := []string{";", ":"}[r.Intn(2)]
			ps = append(ps, strings.Join(full[:1+r.Intn(len(full))], sep))
		default:
			ps = append(ps, fmt.Sprint([]int{0, 1, 2, 3, 4, 5, 7, 8, 9, 21, 22, 23, 24, 25, 27, 28, 29, 30, 37, 39, 40, 47, 49, 59, 90, 97, 100, 107}[r.Intn(28)]))
		}
	}
	return "\x1b[" + strings.Join(ps, ";") + "m"
}

// Seq draws one sequence of child output for a cols x rows emulator.
func Seq(r gen.R, cols, rows int) string {
	size := rows
	if r.Intn(2) == 0 {
		size = cols
	}
	switch r.Intn(24) {
	case 0, 1, 2, 3, 4:
		return Text(r)
	case 5, 6:
		return string(c0s[r.Intn(len(c0s))])
	case 7, 8, 9, 10:
		return "\x1b[" + Param(r, size) + csiOne[r.Intn(len(csiOne))]
	case 11:
		f := []string{"H", "f", "r"}[r.Intn(3)]
		switch r.Intn(4) {
		case 0:
			return "\x1b[" + f
		case 1:
			return "\x1b[" + Param(r, rows) + f
		default:
			return "\x1b[" + Param(r, rows) + ";" + Param(r, cols) + f
		}
	case 12:
		return "\x1b" + escFinals[r.Intn(len(escFinals))]
	case 13:
		hl := []string{"h", "l"}[r.Intn(2)]
		return fmt.Sprintf("\x1b[?%d%s", decModes[r.Intn(len(decModes))], hl)
	case 14:
		hl := []string{"h", "l"}[r.Intn(2)]
		return fmt.Sprintf("\x1b[%d%s", ansiModes[r.Intn(len(ansiModes))], hl)
	case 15, 16:
		return SGR(r)
	case 17:
		switch r.Intn(10) {
		case 8:
			// queries a child asks the terminal (colours, clipboard)
			return []string{"\x1b]11;?\x07", "\x1b]11;?\x1b\\", "\x1b]10;?\x07", "\x1b]4;1;?\x07", "\x1b]52;c;?\x07", "\x1b]52;c;aGk=\x07", "\x1b]52;;?\x1b\\", "\x1b]11\x07", "\x1b]52\x07"}[r.Intn(9)]
		case 9:
			return "\x1b]" + []string{"11", "52", "10", "4"}[r.Intn(4)] + ";" + Text(r) + "\x07"
		case 0:
			return "\x1b]0;" + Text(r) + "\x07"
		case 1:
			return "\x1b]2;" + Text(r) + "\x1b\\"
		case 2:
			return "\x1b]8;id=" + fmt.Sprint(r.Intn(3)) + ";https://example.org/" + fmt.Sprint(r.Intn(3)) + "\x1b\\"
		case 3:
			return "\x1b]8;;\x1b\\"
		case 4:
			return "\x1b]9;" + Text(r) + "\x1b\\"
		case 5:
			return "\x1b]777;notify;" + Text(r) + ";" + Text(r) + "\x1b\\"
		case 6:
			return "\x1b]777;" + Text(r) + "\x07"
		default:
			return "\x1b]" + fmt.Sprint(r.Intn(120)) + ";" + Text(r) + "\x07"
		}
	case 18:
		return []string{"\x1b[c", "\x1b[>c", "\x1b[5n", "\x1b[6n", "\x1b[?25$p", "\x1b[?2027$p", "\x1b[?" + Param(r, size) + "$p", "\x1b[$p"}[r.Intn(8)]
	case 19:
		return []string{"\x1b_" + Text(r) + "\x1b\\", "\x1bP" + Text(r) + "\x1b\\", "\x1bPq#0;2;0;0;0#0~~@@vv@@~~@@~~$-\x1b\\", "\x1bP1;2q\x1b\\", "\x1bPq\x1b\\"}[r.Intn(5)]
	case 20:
		return "\x1b[" + Param(r, size) + ";" + Param(r, size) + ";" + Param(r, size) + []string{"T", "r", "H", "m", "S"}[r.Intn(5)]
	case 21:
		// raw fuzz bytes
		n := r.Range(1, 6)
		b := make([]byte, n)
		for i := range b {
			b[i] = byte(r.Intn(256))
		}
		return string(b)
	case 22:
		return "\r\n"
	default:
		return "\x1b[" + Param(r, size) + csiOne[r.Intn(len(csiOne))]
	}
}

// Stream draws a stream of n sequences.
func Stream(r gen.R, cols, rows, n int) []string {
	out := make([]string, n)
	for i := range out {
		out[i] = Seq(r, cols, rows)
	}
	return out
}
