// Package harness is the driver/worker framework shared by every check.
//
// A check is run as `vcheck <ID> <tier>`: the driver process plans batches,
// runs each batch in a *worker subprocess* (same binary, --worker), merges
// what the workers observed, triages violations against known_findings.json,
// writes evidence/<ID>.json and prints VIOLATION / KNOWN-FINDING lines.
//
// Workers record the case they are about to execute in an mmap'd journal file
// before executing it, so that a panic in a library goroutine (which kills the
// whole process and cannot be recovered) or a watchdog kill is attributed to a
// concrete case by the driver.
package harness

import (
	"bufio"
	"bytes"
	"encoding/binary"
	"encoding/json"
	"fmt"
	"hash/fnv"
	"os"
	"os/exec"
	"path/filepath"
	"regexp"
	"runtime"
	"sort"
	"strconv"
	"strings"
	"sync"
	"sync/atomic"
	"syscall"
	"time"
)

// Batch is one unit of work handed to a worker subprocess.
type Batch struct {
	Index int             `json:"index"`
	Name  string          `json:"name"`
	Seed  int64           `json:"seed"`
	Spec  json.RawMessage `json:"spec,omitempty"`
	// TimeoutS is the generous wall-clock watchdog of the batch (never a verdict).
	TimeoutS int `json:"timeout_s,omitempty"`
	// Race asks the driver to run this batch in the -race build.
	Race bool `json:"race,omitempty"`
	// Env is extra environment for the worker (e.g. COLORTERM).
	Env []string `json:"env,omitempty"`
	// CaseTimeoutS bounds one journaled case (Begin..End) in the worker; when
	// exceeded the in-worker watchdog reports the case (as a violation if two
	// stack dumps show the same library frame still running, else as
	// inconclusive), flushes the results and ends the worker. Default 120.
	CaseTimeoutS int `json:"case_timeout_s,omitempty"`
}

// Check is implemented by each property's package.
type Check interface {
	ID() string
	Level() string // exploration | fault_enumeration
	// Plan returns the batches for a tier.
	Plan(tier string, seed int64) []Batch
	// Run executes a batch in the worker.
	Run(w *W, b Batch)
	// Rule describes how cases are generated and what distinct/non-trivial means.
	Rule() string
	Assumptions() []string
}

// CrashJudge is implemented by checks for which the death of the process under
// test is an expected trigger (a panic injected into a library goroutine that
// re-panics by design): the driver hands over the journal of the dead worker.
type CrashJudge interface {
	JudgeCrash(journal, panicVal, stack string) (handled bool, v *Violation)
}

// Optional interface: checks that want to post-process merged results.
type Finalizer interface {
	// Finalize may inspect merged counters and return an error text if the
	// monitors observed too little (the run is then *broken*, not passing).
	Finalize(tier string, m *Merged) string
}

// Violation is one refuting observation.
type Violation struct {
	Property string          `json:"property"`
	Key      string          `json:"key"`
	What     string          `json:"what"`
	Case     json.RawMessage `json:"case,omitempty"`
	Observed string          `json:"observed,omitempty"`
	Expected string          `json:"expected,omitempty"`
	Batch    string          `json:"batch,omitempty"`
	Seed     int64           `json:"seed"`
	Stack    string          `json:"stack,omitempty"`
}

// W is the worker-side context.
type W struct {
	id            string
	batch         Batch
	mu            sync.Mutex
	counts        map[string]int64
	sets          map[string]map[string]struct{}
	hashes        map[uint64]struct{}
	samples       []json.RawMessage
	viols         []Violation
	violKeys      map[string]int
	incon         map[string]int64
	journal       []byte
	jfile         *os.File
	Tier          string
	maxViolPerKey int
	lastBegin     int64 // unix nanos of the last Begin, 0 when idle
	progress      int64 // bumped by every Count: harness-side progress inside one case
	outPath       string
}

const journalSize = 1 << 20

func newW(id string, b Batch, tier, journalPath string) *W {
	w := &W{id: id, batch: b, Tier: tier,
		counts: map[string]int64{}, sets: map[string]map[string]struct{}{},
		hashes: map[uint64]struct{}{}, violKeys: map[string]int{}, incon: map[string]int64{},
		maxViolPerKey: 3}
	if journalPath != "" {
		f, err := os.OpenFile(journalPath, os.O_RDWR|os.O_CREATE|os.O_TRUNC, 0o644)
		if err == nil {
			if err := f.Truncate(journalSize); err == nil {
				m, err := syscall.Mmap(int(f.Fd()), 0, journalSize, syscall.PROT_READ|syscall.PROT_WRITE, syscall.MAP_SHARED)
				if err == nil {
					w.journal = m
					w.jfile = f
				}
			}
		}
	}
	return w
}

// Begin records the case about to be executed (cheap: a memory copy into a
// shared file mapping that survives the death of the process).
func (w *W) Begin(desc string) {
	atomic.StoreInt64(&w.lastBegin, time.Now().UnixNano())
	if w.journal == nil {
		return
	}
	n := len(desc)
	if n > journalSize-8 {
		n = journalSize - 8
	}
	binary.LittleEndian.PutUint32(w.journal[0:4], 0)
	copy(w.journal[8:], desc[:n])
	binary.LittleEndian.PutUint32(w.journal[4:8], uint32(n))
	binary.LittleEndian.PutUint32(w.journal[0:4], 1) // 1 = in progress
}

// End marks the journaled case as completed.
func (w *W) End() {
	atomic.StoreInt64(&w.lastBegin, 0)
	if w.journal == nil {
		return
	}
	binary.LittleEndian.PutUint32(w.journal[0:4], 2)
}

func (w *W) Seed() int64 { return w.batch.Seed }

func (w *W) Count(name string, n int64) {
	atomic.AddInt64(&w.progress, 1)
	w.mu.Lock()
	w.counts[name] += n
	w.mu.Unlock()
}

// Violations returns the number of violations recorded by this worker so far.
func (w *W) Violations() int {
	w.mu.Lock()
	defer w.mu.Unlock()
	return len(w.viols)
}

// Max keeps the maximum of a gauge.
func (w *W) Max(name string, n int64) {
	w.mu.Lock()
	if n > w.counts["max:"+name] {
		w.counts["max:"+name] = n
	}
	w.mu.Unlock()
}

// Distinct adds key to a named small-cardinality set.
func (w *W) Distinct(set, key string) {
	w.mu.Lock()
	s := w.sets[set]
	if s == nil {
		s = map[string]struct{}{}
		w.sets[set] = s
	}
	if len(s) < 200000 {
		s[key] = struct{}{}
	}
	w.mu.Unlock()
}

// Case registers one executed, non-trivial case by content hash; the number of
// distinct hashes over all workers is the evidence's distinct_nontrivial.
func (w *W) Case(content string) {
	h := fnv.New64a()
	h.Write([]byte(content))
	w.CaseHash(h.Sum64())
}

func (w *W) CaseHash(h uint64) {
	w.mu.Lock()
	w.counts["evaluations"]++
	if len(w.hashes) < 4000000 {
		w.hashes[h] = struct{}{}
	} else {
		w.counts["distinct_overflow"]++
	}
	w.mu.Unlock()
}

// Eval counts an evaluation that is not registered as distinct/non-trivial.
func (w *W) Eval(n int64) { w.Count("evaluations", n) }

func (w *W) Sample(v any) {
	w.mu.Lock()
	defer w.mu.Unlock()
	if len(w.samples) >= 3 {
		return
	}
	b, err := json.Marshal(v)
	if err == nil {
		w.samples = append(w.samples, b)
	}
}

func (w *W) Inconclusive(reason string) {
	w.mu.Lock()
	w.incon[reason]++
	w.mu.Unlock()
}

// Violation reports a refuting observation. key names the defect (not the
// input); caseV is the complete input of the failing execution.
func (w *W) Violation(key, what string, caseV any, observed, expected string) {
	w.ViolationStack(key, what, caseV, observed, expected, "")
}

func (w *W) ViolationStack(key, what string, caseV any, observed, expected, stack string) {
	w.mu.Lock()
	defer w.mu.Unlock()
	w.counts["violations_raw"]++
	w.violKeys[key]++
	if w.violKeys[key] > w.maxViolPerKey {
		return
	}
	cb, _ := json.Marshal(caseV)
	w.viols = append(w.viols, Violation{Property: w.id, Key: key, What: what, Case: cb,
		Observed: clip(observed, 4000), Expected: clip(expected, 4000), Batch: w.batch.Name, Seed: w.batch.Seed, Stack: clip(stack, 6000)})
}

func clip(s string, n int) string {
	if len(s) > n {
		return s[:n] + "…"
	}
	return s
}

type workerResult struct {
	Batch   string              `json:"batch"`
	Counts  map[string]int64    `json:"counts"`
	Sets    map[string][]string `json:"sets"`
	Samples []json.RawMessage   `json:"samples"`
	Viols   []Violation         `json:"viols"`
	VKeys   map[string]int      `json:"vkeys"`
	Incon   map[string]int64    `json:"incon"`
	HashN   int                 `json:"hash_n"`
}

// Merged is what the driver accumulates.
type Merged struct {
	Counts  map[string]int64
	Sets    map[string]map[string]struct{}
	Hashes  map[uint64]struct{}
	Samples []json.RawMessage
	Viols   []Violation
	VKeys   map[string]int
	Incon   map[string]int64
	Broken  []string
}

// ---------------------------------------------------------------------------
// worker entry

// WorkerMain runs one batch and writes results to outPath.
func WorkerMain(c Check, tier string, batchJSON, outPath, journalPath string) {
	var b Batch
	if err := json.Unmarshal([]byte(batchJSON), &b); err != nil {
		fmt.Fprintln(os.Stderr, "bad batch json:", err)
		os.Exit(3)
	}
	w := newW(c.ID(), b, tier, journalPath)
	w.outPath = outPath
	go w.caseWatchdog()
	func() {
		defer func() {
			if r := recover(); r != nil {
				// A panic on the harness goroutine outside a per-case recover:
				// report as a violation of the journaled case.
				buf := make([]byte, 1<<16)
				n := runtime.Stack(buf, false)
				desc := w.currentJournal()
				w.ViolationStack("panic:uncaught:"+PanicKey(fmt.Sprint(r), string(buf[:n])), fmt.Sprintf("panic: %v", r), map[string]string{"journal": desc}, fmt.Sprint(r), "no panic", string(buf[:n]))
			}
		}()
		c.Run(w, b)
	}()
	w.End()
	w.flush(outPath)
}

// caseWatchdog ends the worker when one case runs for too long. The clock is
// only the trigger: the verdict needs two dumps, taken apart, that show the
// harness goroutine inside the same library function.
func (w *W) caseWatchdog() {
	limit := time.Duration(w.batch.CaseTimeoutS) * time.Second
	if limit == 0 {
		limit = 120 * time.Second
	}
	for {
		time.Sleep(500 * time.Millisecond)
		lb := atomic.LoadInt64(&w.lastBegin)
		if lb == 0 || time.Since(time.Unix(0, lb)) < limit {
			continue
		}
		d1 := AllStacks()
		p1 := atomic.LoadInt64(&w.progress)
		time.Sleep(2 * time.Second)
		if atomic.LoadInt64(&w.lastBegin) != lb {
			continue
		}
		d2 := AllStacks()
		p2 := atomic.LoadInt64(&w.progress)
		f1, blk := harnessGoroutineFrame(d1)
		f2, _ := harnessGoroutineFrame(d2)
		desc := w.currentJournal()
		// the verdict is keyed by the library entry point the harness called
		// (outermost library frame): a loop that calls helpers shows varying
		// innermost frames. The harness must not have made progress either.
		e1, e2 := OutermostVaxisFrame(blk), OutermostVaxisFrame(blockOf(d2))
		if e1 != "?" && e1 == e2 && (f1 == f2 || p1 == p2) {
			w.ViolationStack("hang:running@"+e1, "a single call into the library did not return: two stack dumps "+"2s apart show the same library call still running (innermost frames "+f1+" / "+f2+")", map[string]string{"journal": desc}, "no return after "+limit.String(), "the call returns", blk)
		} else {
			w.Inconclusive("case-watchdog-without-corroboration")
		}
		w.Count("aborted_batches", 1)
		w.flush(w.outPath)
		os.Exit(0)
	}
}

// harnessGoroutineFrame finds the goroutine running the check (its stack
// contains harness.WorkerMain) and returns its innermost vaxis frame.
func harnessGoroutineFrame(dump string) (string, string) {
	for _, blk := range strings.Split(dump, "\n\n") {
		if strings.Contains(blk, "harness.WorkerMain(") && !strings.Contains(blk, "caseWatchdog") {
			return InnermostVaxisFrame(blk), blk
		}
	}
	return "?", ""
}

func blockOf(dump string) string {
	_, b := harnessGoroutineFrame(dump)
	return b
}

// OutermostVaxisFrame names the library function the harness called (the
// library frame nearest to the harness frames).
func OutermostVaxisFrame(stack string) string {
	out := "?"
	for _, l := range strings.Split(stack, "\n") {
		if strings.HasPrefix(l, "\t") || !strings.Contains(l, "(") {
			continue
		}
		if strings.HasPrefix(l, "git.sr.ht/~rockorager/vaxis") {
			fn := l
			if k := strings.LastIndex(fn, "("); k > 0 {
				fn = fn[:k]
			}
			out = strings.TrimPrefix(fn, "git.sr.ht/~rockorager/")
		}
	}
	return out
}

func (w *W) currentJournal() string {
	if w.journal == nil {
		return ""
	}
	n := binary.LittleEndian.Uint32(w.journal[4:8])
	if int(n) > journalSize-8 {
		n = journalSize - 8
	}
	return string(w.journal[8 : 8+n])
}

func (w *W) flush(outPath string) {
	w.mu.Lock()
	defer w.mu.Unlock()
	res := workerResult{Batch: w.batch.Name, Counts: w.counts, Sets: map[string][]string{}, Samples: w.samples, Viols: w.viols, VKeys: w.violKeys, Incon: w.incon, HashN: len(w.hashes)}
	for k, s := range w.sets {
		l := make([]string, 0, len(s))
		for v := range s {
			l = append(l, v)
		}
		res.Sets[k] = l
	}
	f, err := os.Create(outPath)
	if err != nil {
		fmt.Fprintln(os.Stderr, "cannot write result:", err)
		os.Exit(3)
	}
	bw := bufio.NewWriter(f)
	enc := json.NewEncoder(bw)
	_ = enc.Encode(res)
	bw.Flush()
	f.Close()
	// hashes as raw little-endian u64
	hf, err := os.Create(outPath + ".hashes")
	if err == nil {
		bw := bufio.NewWriterSize(hf, 1<<20)
		var tmp [8]byte
		for h := range w.hashes {
			binary.LittleEndian.PutUint64(tmp[:], h)
			bw.Write(tmp[:])
		}
		bw.Flush()
		hf.Close()
	}
}

// ---------------------------------------------------------------------------
// panic classification

var reFuncLine = regexp.MustCompile(`(?m)^(\S+)\(.*\)\n\t(\S+):(\d+)`)

// PanicKey builds a finding key from a panic value and a stack: kind of panic +
// innermost frame inside the vaxis module (no line numbers).
func PanicKey(val, stack string) string {
	kind := panicKind(val)
	fn := InnermostVaxisFrame(stack)
	return kind + "@" + fn
}

func panicKind(val string) string {
	switch {
	case strings.Contains(val, "index out of range"):
		return "index-out-of-range"
	case strings.Contains(val, "slice bounds out of range"):
		return "slice-bounds"
	case strings.Contains(val, "nil pointer dereference"), strings.Contains(val, "invalid memory address"):
		return "nil-deref"
	case strings.Contains(val, "divide by zero"):
		return "divide-by-zero"
	case strings.Contains(val, "send on closed channel"):
		return "send-on-closed-channel"
	case strings.Contains(val, "close of closed channel"):
		return "close-of-closed-channel"
	case strings.Contains(val, "makeslice"):
		return "makeslice"
	case strings.Contains(val, "concurrent map"):
		return "concurrent-map"
	case strings.Contains(val, "all goroutines are asleep"):
		return "deadlock"
	case strings.Contains(val, "negative shift"):
		return "negative-shift"
	case strings.Contains(val, "out of memory"), strings.Contains(val, "cannot allocate"):
		return "oom"
	}
	v := val
	if len(v) > 40 {
		v = v[:40]
	}
	return "panic(" + strings.ReplaceAll(v, " ", "_") + ")"
}

// InnermostVaxisFrame returns the first function in the stack that belongs to
// the vaxis module, in short form (pkg.(*T).method), or "?".
func InnermostVaxisFrame(stack string) string {
	lines := strings.Split(stack, "\n")
	// a recovered-and-repanicked panic lists the re-panicking deferred
	// function first; the original site follows the last panic frame
	start := 0
	for i, l := range lines {
		if strings.HasPrefix(l, "panic(") || strings.HasPrefix(l, "runtime.goPanic") || strings.HasPrefix(l, "runtime.panic") || strings.HasPrefix(l, "runtime.sigpanic") {
			start = i
		}
	}
	for i := start; i+1 < len(lines); i++ {
		l := lines[i]
		if strings.HasPrefix(l, "\t") || !strings.Contains(l, "(") {
			continue
		}
		if strings.HasPrefix(l, "git.sr.ht/~rockorager/vaxis") {
			fn := l
			if k := strings.LastIndex(fn, "("); k > 0 {
				fn = fn[:k]
			}
			fn = strings.TrimPrefix(fn, "git.sr.ht/~rockorager/")
			// strip closure suffixes like .func1
			return fn
		}
	}
	return "?"
}

// ---------------------------------------------------------------------------
// driver

type Finding struct {
	Property string `json:"property"`
	Key      string `json:"key"`
	Status   string `json:"status"` // open | fixed
	What     string `json:"what"`
	Witness  string `json:"witness,omitempty"`
	Commit   string `json:"commit,omitempty"`
}

func loadFindings(root string) []Finding {
	b, err := os.ReadFile(filepath.Join(root, "known_findings.json"))
	if err != nil {
		return nil
	}
	var fs []Finding
	if err := json.Unmarshal(b, &fs); err != nil {
		fmt.Fprintln(os.Stderr, "known_findings.json unreadable:", err)
		os.Exit(2)
	}
	return fs
}

type DriverOpts struct {
	Root      string // /verif
	Tier      string
	Seed      int64
	Jobs      int
	Self      string // path to this binary
	SelfRace  string // path to -race build (may be empty)
	Replay    string
	OnlyBatch string
}

// Replayer is implemented by checks that can re-execute a recorded case.
type Replayer interface {
	Replay(w *W, raw json.RawMessage)
}

// Verbose is set in replay mode; checks may print details when it is on.
var Verbose bool

func replayMain(c Check, o DriverOpts) int {
	rp, ok := c.(Replayer)
	if !ok {
		fmt.Println("check has no replay support")
		return 2
	}
	b, err := os.ReadFile(o.Replay)
	if err != nil {
		fmt.Println(err)
		return 2
	}
	var f struct {
		Violation Violation `json:"violation"`
	}
	if err := json.Unmarshal(b, &f); err != nil {
		fmt.Println(err)
		return 2
	}
	Verbose = true
	w := newW(c.ID(), Batch{Name: "replay", Seed: f.Violation.Seed}, o.Tier, "")
	w.maxViolPerKey = 50
	rp.Replay(w, f.Violation.Case)
	fmt.Printf("replayed: recorded key=%s\n", f.Violation.Key)
	open := map[string]bool{}
	for _, kf := range loadFindings(o.Root) {
		if kf.Property == c.ID() && kf.Status == "open" {
			open[kf.Key] = true
		}
	}
	exit := 0
	for _, v := range w.viols {
		if open[v.Key] {
			fmt.Printf("KNOWN-FINDING: property=%s key=%s %s\n", c.ID(), v.Key, oneLine(v.What))
			continue
		}
		fmt.Printf("VIOLATION property=%s replay=%s key=%s what=%s\n  observed=%s\n  expected=%s\n", c.ID(), o.Replay, v.Key, oneLine(v.What), oneLine(v.Observed), oneLine(v.Expected))
		exit = 1
	}
	if len(w.viols) == 0 {
		fmt.Println("replay: no violation reproduced")
	}
	return exit
}

// DriverMain runs a whole check; returns the process exit code.
func DriverMain(c Check, o DriverOpts) int {
	if o.Replay != "" {
		return replayMain(c, o)
	}
	start := time.Now()
	id := c.ID()
	scratch, err := os.MkdirTemp("", "vcheck-"+id+"-")
	if err != nil {
		fmt.Fprintln(os.Stderr, err)
		return 2
	}
	defer os.RemoveAll(scratch)

	batches := c.Plan(o.Tier, o.Seed)
	if o.OnlyBatch != "" {
		var nb []Batch
		for _, b := range batches {
			if b.Name == o.OnlyBatch {
				nb = append(nb, b)
			}
		}
		batches = nb
	}
	for i := range batches {
		batches[i].Index = i
	}
	m := &Merged{Counts: map[string]int64{}, Sets: map[string]map[string]struct{}{}, Hashes: map[uint64]struct{}{}, VKeys: map[string]int{}, Incon: map[string]int64{}}
	var mu sync.Mutex
	jobs := o.Jobs
	if jobs < 1 {
		jobs = runtime.NumCPU()
	}
	sem := make(chan struct{}, jobs)
	var wg sync.WaitGroup
	for _, b := range batches {
		b := b
		wg.Add(1)
		sem <- struct{}{}
		go func() {
			defer wg.Done()
			defer func() { <-sem }()
			runBatch(c, o, scratch, b, m, &mu)
		}()
	}
	wg.Wait()

	// triage
	findings := loadFindings(o.Root)
	open := map[string]Finding{}
	for _, f := range findings {
		if f.Property == id && f.Status == "open" {
			open[f.Key] = f
		}
	}
	replayDir := filepath.Join(o.Root, "replays", id)
	exit := 0
	knownFired := map[string]int{}
	reported := map[string]bool{}
	newViol := 0
	sort.SliceStable(m.Viols, func(i, j int) bool { return m.Viols[i].Key < m.Viols[j].Key })
	for _, v := range m.Viols {
		if f, ok := open[v.Key]; ok {
			if knownFired[v.Key] == 0 {
				fmt.Printf("KNOWN-FINDING: property=%s key=%s %s\n", id, v.Key, f.What)
			}
			knownFired[v.Key]++
			continue
		}
		newViol++
		if reported[v.Key] {
			continue
		}
		reported[v.Key] = true
		os.MkdirAll(replayDir, 0o755)
		h := fnv.New32a()
		h.Write([]byte(v.Key))
		p := filepath.Join(replayDir, fmt.Sprintf("%s-%08x.json", sanitize(v.Key), h.Sum32()))
		rb, _ := json.MarshalIndent(map[string]any{"property": id, "tier": o.Tier, "seed": o.Seed, "violation": v}, "", " ")
		os.WriteFile(p, rb, 0o644)
		fmt.Printf("VIOLATION property=%s replay=%s key=%s what=%s\n", id, p, v.Key, oneLine(v.What))
		exit = 1
	}
	for k := range knownFired {
		knownFired[k] = m.VKeys[k]
	}

	// broken?
	if fz, ok := c.(Finalizer); ok {
		if msg := fz.Finalize(o.Tier, m); msg != "" {
			m.Broken = append(m.Broken, msg)
		}
	}
	if m.Counts["evaluations"] == 0 {
		m.Broken = append(m.Broken, "monitor observed nothing (0 evaluations)")
	}
	for _, msg := range m.Broken {
		fmt.Printf("BROKEN property=%s %s\n", id, oneLine(msg))
		if exit == 0 {
			exit = 2
		}
	}

	writeEvidence(c, o, m, knownFired, newViol, time.Since(start))
	inc := int64(0)
	for _, n := range m.Incon {
		inc += n
	}
	fmt.Printf("SUMMARY property=%s tier=%s seed=%d evaluations=%d distinct=%d violations=%d known=%d inconclusive=%d wall=%.1fs\n",
		id, o.Tier, o.Seed, m.Counts["evaluations"], len(m.Hashes), newViol, len(knownFired), inc, time.Since(start).Seconds())
	return exit
}

func sanitize(s string) string {
	var b strings.Builder
	for _, r := range s {
		switch {
		case r >= 'a' && r <= 'z', r >= 'A' && r <= 'Z', r >= '0' && r <= '9', r == '-', r == '_', r == '.':
			b.WriteRune(r)
		default:
			b.WriteByte('_')
		}
		if b.Len() > 80 {
			break
		}
	}
	return b.String()
}

func oneLine(s string) string {
	s = strings.ReplaceAll(s, "\n", " ")
	return clip(s, 300)
}

func runBatch(c Check, o DriverOpts, scratch string, b Batch, m *Merged, mu *sync.Mutex) {
	bj, _ := json.Marshal(b)
	out := filepath.Join(scratch, fmt.Sprintf("res-%d.json", b.Index))
	journal := filepath.Join(scratch, fmt.Sprintf("journal-%d", b.Index))
	errf := filepath.Join(scratch, fmt.Sprintf("stderr-%d.txt", b.Index))
	bin := o.Self
	if b.Race && o.SelfRace != "" {
		bin = o.SelfRace
	}
	cmd := exec.Command(bin, "--worker", c.ID(), o.Tier, string(bj), out, journal)
	ef, _ := os.Create(errf)
	cmd.Stderr = ef
	cmd.Stdout = ef
	cmd.Env = cleanEnv(b.Env)
	if b.Race {
		cmd.Env = append(cmd.Env, "GORACE=halt_on_error=0 log_path="+filepath.Join(scratch, fmt.Sprintf("race-%d", b.Index)))
	}
	timeout := time.Duration(b.TimeoutS) * time.Second
	if timeout == 0 {
		timeout = 20 * time.Minute
	}
	if err := cmd.Start(); err != nil {
		mu.Lock()
		m.Broken = append(m.Broken, "cannot start worker: "+err.Error())
		mu.Unlock()
		return
	}
	done := make(chan error, 1)
	go func() { done <- cmd.Wait() }()
	var werr error
	timedOut := false
	select {
	case werr = <-done:
	case <-time.After(timeout):
		timedOut = true
		cmd.Process.Signal(syscall.SIGQUIT)
		select {
		case werr = <-done:
		case <-time.After(20 * time.Second):
			cmd.Process.Kill()
			werr = <-done
		}
	}
	ef.Close()
	stderrB, _ := os.ReadFile(errf)
	stderr := string(stderrB)

	mu.Lock()
	defer mu.Unlock()
	// race logs
	if b.Race {
		files, _ := filepath.Glob(filepath.Join(scratch, fmt.Sprintf("race-%d.*", b.Index)))
		for _, f := range files {
			rb, _ := os.ReadFile(f)
			mergeRaceReports(c.ID(), b, string(rb), m)
		}
		// race reports may also land on stderr if log_path failed
		if strings.Contains(stderr, "WARNING: DATA RACE") {
			mergeRaceReports(c.ID(), b, stderr, m)
		}
	}
	resB, rerr := os.ReadFile(out)
	if rerr == nil {
		var res workerResult
		if err := json.Unmarshal(resB, &res); err == nil {
			mergeResult(m, &res, out)
		} else {
			m.Broken = append(m.Broken, "worker result unreadable for batch "+b.Name)
		}
		return
	}
	// no result file: the worker died or was killed
	jdesc := readJournal(journal)
	if timedOut {
		m.Incon["watchdog:"+b.Name]++
		m.Counts["evaluations"]++ // the journaled case was attempted
		// keep the dump for the evidence
		m.Sets["watchdog_journal"] = addSet(m.Sets["watchdog_journal"], clip(jdesc, 300))
		if v := classifyHangDump(c.ID(), b, jdesc, stderr); v != nil {
			m.Viols = append(m.Viols, *v)
			m.VKeys[v.Key]++
		}
		return
	}
	// crashed
	val, stack := extractPanic(stderr)
	if cj, ok := c.(CrashJudge); ok && val != "" {
		if handled, v := cj.JudgeCrash(jdesc, val, stack); handled {
			m.Counts["evaluations"]++
			m.Counts["expected_process_deaths_judged"]++
			h := fnv.New64a()
			h.Write([]byte(jdesc))
			m.Hashes[h.Sum64()] = struct{}{}
			if v != nil {
				v.Property, v.Batch, v.Seed = c.ID(), b.Name, b.Seed
				m.Viols = append(m.Viols, *v)
				m.VKeys[v.Key]++
			}
			return
		}
	}
	if val == "" {
		// killed without a panic (e.g. by a signal the code under test should
		// have handled): the check may recognise the case from its journal
		if cj, ok := c.(CrashJudge); ok && werr != nil {
			if handled, v := cj.JudgeCrash(jdesc, "exit: "+werr.Error(), clip(stderr, 2000)); handled {
				m.Counts["evaluations"]++
				m.Counts["expected_process_deaths_judged"]++
				if v != nil {
					v.Property, v.Batch, v.Seed = c.ID(), b.Name, b.Seed
					m.Viols = append(m.Viols, *v)
					m.VKeys[v.Key]++
				}
				return
			}
		}
		m.Broken = append(m.Broken, fmt.Sprintf("worker for batch %s exited (%v) without result and without panic: %s", b.Name, werr, clip(stderr, 500)))
		return
	}
	key := "crash:" + PanicKey(val, stack)
	cb, _ := json.Marshal(map[string]string{"journal": jdesc})
	m.Viols = append(m.Viols, Violation{Property: c.ID(), Key: key, What: "process died: " + val, Case: cb, Observed: val, Expected: "no panic / fatal error", Batch: b.Name, Seed: b.Seed, Stack: clip(stack, 6000)})
	m.VKeys[key]++
	m.Counts["evaluations"]++
	m.Counts["worker_crashes"]++
}

func addSet(s map[string]struct{}, k string) map[string]struct{} {
	if s == nil {
		s = map[string]struct{}{}
	}
	s[k] = struct{}{}
	return s
}

func readJournal(path string) string {
	b, err := os.ReadFile(path)
	if err != nil || len(b) < 8 {
		return ""
	}
	n := binary.LittleEndian.Uint32(b[4:8])
	if int(n) > len(b)-8 {
		n = uint32(len(b) - 8)
	}
	return string(b[8 : 8+n])
}

func extractPanic(stderr string) (val, stack string) {
	for _, marker := range []string{"panic: ", "fatal error: "} {
		if i := strings.Index(stderr, marker); i >= 0 {
			rest := stderr[i:]
			nl := strings.Index(rest, "\n")
			if nl < 0 {
				nl = len(rest)
			}
			val = strings.TrimSpace(rest[len(marker):nl])
			// include "[recovered]" re-panics: use the last "panic:" block's stack
			stack = rest
			// goroutine running the panic is the first goroutine block
			if g := strings.Index(rest, "\ngoroutine "); g >= 0 {
				stack = rest[g+1:]
				if e := strings.Index(stack, "\n\n"); e > 0 {
					stack = stack[:e]
				}
			}
			return val, stack
		}
	}
	return "", ""
}

// classifyHangDump: a batch-level watchdog fired. It is a violation only with
// corroboration: the SIGQUIT dump shows a goroutine parked/running in a vaxis
// frame. Without that it stays inconclusive.
func classifyHangDump(id string, b Batch, jdesc, stderr string) *Violation {
	if !strings.Contains(stderr, "SIGQUIT") {
		return nil
	}
	// find goroutine blocks with a vaxis frame (not the harness)
	blocks := strings.Split(stderr, "\n\n")
	for _, blk := range blocks {
		if !strings.HasPrefix(blk, "goroutine ") {
			continue
		}
		fn := InnermostVaxisFrame(blk)
		if fn == "?" {
			continue
		}
		state := ""
		if i := strings.Index(blk, "["); i > 0 {
			if j := strings.Index(blk[i:], "]"); j > 0 {
				state = blk[i+1 : i+j]
			}
		}
		if k := strings.Index(state, ","); k > 0 {
			state = state[:k]
		}
		if !(strings.HasPrefix(state, "chan") || state == "select" || state == "running" || state == "runnable" || strings.HasPrefix(state, "sync.")) {
			continue
		}
		key := "hang:" + strings.ReplaceAll(state, " ", "-") + "@" + fn
		cb, _ := json.Marshal(map[string]string{"journal": jdesc})
		return &Violation{Property: id, Key: key, What: "worker wedged; goroutine " + state + " in " + fn, Case: cb, Observed: "watchdog fired; dump shows library goroutine " + state, Expected: "progress", Batch: b.Name, Seed: b.Seed, Stack: clip(blk, 6000)}
	}
	return nil
}

func mergeResult(m *Merged, res *workerResult, out string) {
	for k, v := range res.Counts {
		if strings.HasPrefix(k, "max:") {
			if v > m.Counts[k] {
				m.Counts[k] = v
			}
		} else {
			m.Counts[k] += v
		}
	}
	for k, l := range res.Sets {
		s := m.Sets[k]
		if s == nil {
			s = map[string]struct{}{}
			m.Sets[k] = s
		}
		for _, v := range l {
			s[v] = struct{}{}
		}
	}
	if len(m.Samples) < 5 {
		for _, s := range res.Samples {
			if len(m.Samples) < 5 {
				m.Samples = append(m.Samples, s)
			}
		}
	}
	m.Viols = append(m.Viols, res.Viols...)
	for k, n := range res.VKeys {
		m.VKeys[k] += n
	}
	for k, n := range res.Incon {
		m.Incon[k] += n
	}
	if hb, err := os.ReadFile(out + ".hashes"); err == nil {
		for i := 0; i+8 <= len(hb); i += 8 {
			m.Hashes[binary.LittleEndian.Uint64(hb[i:i+8])] = struct{}{}
		}
	}
}

var reRaceFrame = regexp.MustCompile(`(?m)^  (\S+)\(\)\n      (\S+):\d+`)

// mergeRaceReports turns race-detector report blocks into violations keyed by
// the pair of outermost vaxis entry points.
func mergeRaceReports(id string, b Batch, log string, m *Merged) {
	parts := strings.Split(log, "==================")
	for _, p := range parts {
		if !strings.Contains(p, "WARNING: DATA RACE") {
			continue
		}
		m.Counts["race_reports"]++
		// two access stacks: between "Read at/Write at/Previous ..." headers
		secs := regexp.MustCompile(`(?m)^(Read at|Write at|Previous read at|Previous write at|Atomic .* at|Previous atomic .* at).*$`).Split(p, -1)
		var fns []string
		vaxisInvolved := false
		for _, s := range secs[1:] {
			// cut at next "Goroutine" header
			if i := strings.Index(s, "\nGoroutine "); i >= 0 {
				s = s[:i]
			}
			frames := reRaceFrame.FindAllStringSubmatch(s, -1)
			outer := "?"
			inner := "?"
			for _, f := range frames {
				if strings.Contains(f[1], "rockorager/vaxis") {
					vaxisInvolved = true
					if inner == "?" {
						inner = f[1]
					}
					outer = f[1]
				}
			}
			_ = outer
			fns = append(fns, strings.TrimPrefix(inner, "git.sr.ht/~rockorager/"))
		}
		sort.Strings(fns)
		key := "race:" + strings.Join(fns, "|")
		if !vaxisInvolved {
			m.Broken = append(m.Broken, "race report with no vaxis frame (harness race): "+clip(p, 600))
			continue
		}
		m.VKeys[key]++
		if m.VKeys[key] <= 2 {
			cb, _ := json.Marshal(map[string]string{"batch": b.Name})
			m.Viols = append(m.Viols, Violation{Property: id, Key: key, What: "data race reported by the race detector", Case: cb, Observed: clip(p, 3500), Expected: "no race report", Batch: b.Name, Seed: b.Seed})
		}
	}
}

func cleanEnv(extra []string) []string {
	var env []string
	for _, e := range os.Environ() {
		k := e
		if i := strings.Index(e, "="); i >= 0 {
			k = e[:i]
		}
		switch {
		case k == "COLORTERM", k == "ASCIINEMA_REC", k == "TERM", strings.HasPrefix(k, "VAXIS_"), k == "GORACE":
			continue
		}
		env = append(env, e)
	}
	env = append(env, "GOTRACEBACK=all")
	return append(env, extra...)
}

func writeEvidence(c Check, o DriverOpts, m *Merged, known map[string]int, newViol int, wall time.Duration) {
	cov := map[string]any{}
	cov["evaluations"] = m.Counts["evaluations"]
	cov["distinct_nontrivial"] = len(m.Hashes)
	cov["rule"] = c.Rule()
	samples := make([]any, 0, len(m.Samples))
	for _, s := range m.Samples {
		var v any
		if json.Unmarshal(s, &v) == nil {
			samples = append(samples, v)
		}
	}
	cov["samples"] = samples
	counts := map[string]int64{}
	for k, v := range m.Counts {
		if k == "evaluations" {
			continue
		}
		counts[k] = v
	}
	cov["observed_counts"] = counts
	sets := map[string]any{}
	for k, s := range m.Sets {
		ent := map[string]any{"distinct": len(s)}
		if len(s) <= 40 {
			l := make([]string, 0, len(s))
			for v := range s {
				l = append(l, v)
			}
			sort.Strings(l)
			ent["values"] = l
		}
		sets[k] = ent
	}
	cov["observed_sets"] = sets
	cov["inconclusive"] = m.Incon
	kf := []string{}
	for k, n := range known {
		kf = append(kf, k+" x"+strconv.Itoa(n))
	}
	sort.Strings(kf)
	cov["known_findings_fired"] = kf
	if len(m.Broken) > 0 {
		cov["broken"] = m.Broken
	}
	if m.Counts["exhaustive_spaces"] > 0 {
		cov["exhaustive"] = true
	}
	ev := map[string]any{
		"property_id": c.ID(),
		"tier":        o.Tier,
		"seed":        o.Seed,
		"level":       c.Level(),
		"coverage":    cov,
		"assumptions": c.Assumptions(),
		"wall_s":      float64(int(wall.Seconds()*10)) / 10,
		"violations":  newViol,
	}
	b, _ := json.MarshalIndent(ev, "", " ")
	evDir := filepath.Join(o.Root, "evidence")
	if r := os.Getenv("VERIF_REPO"); r != "" && r != "/repo" {
		// a self-test against a scratch copy (mutant, seed): its observations
		// are not evidence about /repo
		evDir = filepath.Join(o.Root, "replays", "selftest-evidence")
	}
	os.MkdirAll(evDir, 0o755)
	tmp := filepath.Join(evDir, c.ID()+".json.tmp")
	os.WriteFile(tmp, append(b, '\n'), 0o644)
	os.Rename(tmp, filepath.Join(evDir, c.ID()+".json"))
}

// AllStacks returns a dump of all goroutines.
func AllStacks() string {
	buf := make([]byte, 1<<20)
	n := runtime.Stack(buf, true)
	return string(buf[:n])
}

// Recover runs f and converts a panic on this goroutine into (value, stack).
func Recover(f func()) (val string, stack string, panicked bool) {
	defer func() {
		if r := recover(); r != nil {
			buf := make([]byte, 1<<15)
			n := runtime.Stack(buf, false)
			val = fmt.Sprint(r)
			stack = string(bytes.TrimSpace(buf[:n]))
			panicked = true
		}
	}()
	f()
	return
}
