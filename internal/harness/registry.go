package harness

var registry = map[string]Check{}

// Register adds a check to the registry (called from init functions).
func Register(c Check) { registry[c.ID()] = c }

// Lookup finds a check by property id.
func Lookup(id string) Check { return registry[id] }

// IDs lists registered ids.
func IDs() []string {
	var l []string
	for k := range registry {
		l = append(l, k)
	}
	return l
}
