// Package vxh holds helpers shared by the checks that drive a real Vaxis
// instance on the in-memory console: the application's own shadow record,
// conversion of harness cells to vaxis cells, canonical layout and the
// comparison of the reference terminal's grid with the shadow.
package vxh

import (
	"fmt"
	"strings"
	"time"

	"git.sr.ht/~rockorager/vaxis"

	"verif/internal/memcon"
	"verif/internal/refterm"
	"verif/internal/widthtab"
)

// AppStyle is the harness's own record of a style (never decoded from vaxis
// types).
type AppStyle struct {
	Fg, Bg, Ul refterm.Color
	Attr       uint8 // refterm attribute bits
	UlStyle    uint8
	Link       string
	LinkParams string
}

// AppCell is the harness's own record of what the application set.
type AppCell struct {
	G     string
	Width int // explicit width, 0 = let vaxis measure
	Style AppStyle
}

func ToColor(c refterm.Color) vaxis.Color {
	switch c.K {
	case refterm.ColIndexed:
		return vaxis.IndexColor(uint8(c.V))
	case refterm.ColRGB:
		return vaxis.RGBColor(uint8(c.V>>16), uint8(c.V>>8), uint8(c.V))
	}
	return 0
}

func ToAttr(a uint8) vaxis.AttributeMask {
	var m vaxis.AttributeMask
	if a&refterm.ABold != 0 {
		m |= vaxis.AttrBold
	}
	if a&refterm.ADim != 0 {
		m |= vaxis.AttrDim
	}
	if a&refterm.AItalic != 0 {
		m |= vaxis.AttrItalic
	}
	if a&refterm.ABlink != 0 {
		m |= vaxis.AttrBlink
	}
	if a&refterm.AReverse != 0 {
		m |= vaxis.AttrReverse
	}
	if a&refterm.AInvisible != 0 {
		m |= vaxis.AttrInvisible
	}
	if a&refterm.AStrike != 0 {
		m |= vaxis.AttrStrikethrough
	}
	return m
}

func FromAttr(m vaxis.AttributeMask) uint8 {
	var a uint8
	if m&vaxis.AttrBold != 0 {
		a |= refterm.ABold
	}
	if m&vaxis.AttrDim != 0 {
		a |= refterm.ADim
	}
	if m&vaxis.AttrItalic != 0 {
		a |= refterm.AItalic
	}
	if m&vaxis.AttrBlink != 0 {
		a |= refterm.ABlink
	}
	if m&vaxis.AttrReverse != 0 {
		a |= refterm.AReverse
	}
	if m&vaxis.AttrInvisible != 0 {
		a |= refterm.AInvisible
	}
	if m&vaxis.AttrStrikethrough != 0 {
		a |= refterm.AStrike
	}
	return a
}

func (s AppStyle) ToVaxis() vaxis.Style {
	return vaxis.Style{
		Hyperlink:       s.Link,
		HyperlinkParams: s.LinkParams,
		Foreground:      ToColor(s.Fg),
		Background:      ToColor(s.Bg),
		UnderlineColor:  ToColor(s.Ul),
		UnderlineStyle:  vaxis.UnderlineStyle(s.UlStyle),
		Attribute:       ToAttr(s.Attr),
	}
}

func (c AppCell) ToVaxis() vaxis.Cell {
	return vaxis.Cell{Character: vaxis.Character{Grapheme: c.G, Width: c.Width}, Style: c.Style.ToVaxis()}
}

// ---------------------------------------------------------------------------
// nearest palette oracle (C07): integer weighted distance over entries 16-255

func paletteRGB(i int) (int, int, int) {
	v := refterm.DefaultPalette(i)
	return int(v >> 16 & 255), int(v >> 8 & 255), int(v & 255)
}

// NearestSet returns the set of palette indexes (16..255) attaining the minimum
// of 900·ΔR² + 3481·ΔG² + 121·ΔB² (the library's 0.30/0.59/0.11 weights
// squared, exact in integers).
func NearestSet(rgb uint32) []int {
	r, g, b := int(rgb>>16&255), int(rgb>>8&255), int(rgb&255)
	best := int64(-1)
	var set []int
	for i := 16; i < 256; i++ {
		pr, pg, pb := paletteRGB(i)
		d := int64(900*(pr-r)*(pr-r) + 3481*(pg-g)*(pg-g) + 121*(pb-b)*(pb-b))
		if best < 0 || d < best {
			best = d
			set = set[:0]
			set = append(set, i)
		} else if d == best {
			set = append(set, i)
		}
	}
	return set
}

// ColorOK decides whether the terminal colour is a faithful rendering of the
// application colour under the advertised capabilities.
func ColorOK(app, got refterm.Color, rgbCap bool) bool {
	if app.K == refterm.ColRGB && !rgbCap {
		if got.K != refterm.ColIndexed {
			return false
		}
		for _, i := range NearestSet(app.V) {
			if uint32(i) == got.V {
				return true
			}
		}
		return false
	}
	return app == got
}

// StyleDiff compares the terminal's style with the expectation derived from
// the application style; returns "" when faithful.
func StyleDiff(app AppStyle, got refterm.Style, rgbCap, smulx bool) string {
	var d []string
	if !ColorOK(app.Fg, got.Fg, rgbCap) {
		d = append(d, fmt.Sprintf("fg app=%s term=%s", app.Fg, got.Fg))
	}
	if !ColorOK(app.Bg, got.Bg, rgbCap) {
		d = append(d, fmt.Sprintf("bg app=%s term=%s", app.Bg, got.Bg))
	}
	wantUl, wantUlStyle := app.Ul, app.UlStyle
	if !smulx {
		wantUl = refterm.Color{}
		if wantUlStyle > 1 {
			wantUlStyle = 1
		}
	}
	if !ColorOK(wantUl, got.Ul, rgbCap) {
		d = append(d, fmt.Sprintf("ulcolor want=%s term=%s", wantUl, got.Ul))
	}
	if wantUlStyle != got.UlStyle {
		d = append(d, fmt.Sprintf("ulstyle want=%d term=%d", wantUlStyle, got.UlStyle))
	}
	if app.Attr != got.Attr {
		d = append(d, fmt.Sprintf("attr app=%07b term=%07b", app.Attr, got.Attr))
	}
	if app.Link != got.Link {
		d = append(d, fmt.Sprintf("link app=%q term=%q", app.Link, got.Link))
	} else if app.Link != "" && app.LinkParams != got.LinkParams {
		d = append(d, fmt.Sprintf("linkparams app=%q term=%q", app.LinkParams, got.LinkParams))
	}
	return strings.Join(d, "; ")
}

// ---------------------------------------------------------------------------
// shadow

// Shadow is the application's own record of its screen.
type Shadow struct {
	Cols, Rows int
	Cells      [][]AppCell
}

func NewShadow(cols, rows int) *Shadow {
	s := &Shadow{Cols: cols, Rows: rows, Cells: make([][]AppCell, rows)}
	for r := range s.Cells {
		s.Cells[r] = make([]AppCell, cols)
	}
	return s
}

func (s *Shadow) Set(col, row int, c AppCell) {
	if col < 0 || row < 0 || col >= s.Cols || row >= s.Rows {
		return
	}
	s.Cells[row][col] = c
}

func (s *Shadow) SetStyle(col, row int, st AppStyle) {
	if col < 0 || row < 0 || col >= s.Cols || row >= s.Rows {
		return
	}
	s.Cells[row][col].Style = st
}

// EffWidth is the number of columns a cell occupies for a terminal using
// width method m. Unknown graphemes (not in the curated table) return ok=false.
func EffWidth(c AppCell, m widthtab.Method) (int, bool) {
	if c.Width > 0 {
		return c.Width, true
	}
	if c.G == "" {
		return 1, true
	}
	w, ok := widthtab.Lookup(c.G, m)
	if !ok {
		return 0, false
	}
	if w == 0 {
		return 1, true // rendered as a blank
	}
	return w, true
}

// IsBlank reports whether a cell is rendered as a blank.
func IsBlank(c AppCell, m widthtab.Method) bool {
	if c.G == "" || c.G == " " {
		return true
	}
	if c.Width == 0 {
		if w, ok := widthtab.Lookup(c.G, m); ok && w == 0 {
			return true
		}
	}
	return false
}

// Mismatch describes one difference between shadow and terminal.
type Mismatch struct {
	Row, Col int
	Kind     string // poison | content | style | width
	Detail   string
}

func (m Mismatch) String() string {
	return fmt.Sprintf("(%d,%d) %s: %s", m.Row, m.Col, m.Kind, m.Detail)
}

// Compare checks the terminal grid against the shadow in canonical layout.
func Compare(s *Shadow, t *refterm.Terminal, m widthtab.Method, rgbCap, smulx bool, limit int) []Mismatch {
	var out []Mismatch
	add := func(mm Mismatch) bool {
		out = append(out, mm)
		return len(out) >= limit
	}
	if t.Rows != s.Rows || t.Cols != s.Cols {
		return []Mismatch{{0, 0, "size", fmt.Sprintf("terminal %dx%d shadow %dx%d", t.Cols, t.Rows, s.Cols, s.Rows)}}
	}
	for r := 0; r < s.Rows; r++ {
		for c := 0; c < s.Cols; {
			ac := s.Cells[r][c]
			w, _ := EffWidth(ac, m)
			if w < 1 {
				w = 1
			}
			if c+w > s.Cols {
				w = s.Cols - c
			}
			// columns c .. c+w-1 must show exactly the cell
			var g strings.Builder
			poison := ""
			styleBad := ""
			for k := 0; k < w; k++ {
				tc := t.Cell(r, c+k)
				if tc.Poison != "" && poison == "" {
					poison = tc.Poison
				}
				g.WriteString(tc.G)
				if d := StyleDiff(ac.Style, tc.Style, rgbCap, smulx); d != "" && styleBad == "" {
					styleBad = d
				}
			}
			if poison != "" {
				if add(Mismatch{r, c, "poison", poison}) {
					return out
				}
				c += w
				continue
			}
			wantG := ac.G
			if IsBlank(ac, m) {
				wantG = ""
			}
			gotG := g.String()
			if strings.Trim(gotG, " ") == "" {
				gotG = ""
			}
			if wantG != gotG {
				if add(Mismatch{r, c, "content", fmt.Sprintf("app %q (w=%d) terminal %q", ac.G, w, g.String())}) {
					return out
				}
			} else if wantG != "" {
				// width: the leading terminal cell must span the cell when it
				// is a single cluster
				tc := t.Cell(r, c)
				if tc.W == 2 && w == 1 {
					if add(Mismatch{r, c, "width", fmt.Sprintf("app %q w=1 terminal glyph is wide", ac.G)}) {
						return out
					}
				}
			}
			if styleBad != "" {
				if add(Mismatch{r, c, "style", styleBad}) {
					return out
				}
			}
			c += w
		}
	}
	return out
}

// ---------------------------------------------------------------------------
// session

// Session is a Vaxis instance attached to a reference terminal.
type Session struct {
	Term *refterm.Terminal
	Con  *memcon.Console
	Vx   *vaxis.Vaxis

	syncN int
}

// Start creates a terminal, a console and a Vaxis. The terminal can be
// prepared (prior state) through prep before New is called.
func Start(cols, rows int, caps refterm.Caps, opts vaxis.Options, prep func(t *refterm.Terminal, c *memcon.Console)) (*Session, error) {
	t := refterm.New(cols, rows, caps)
	con := memcon.New(t)
	if prep != nil {
		prep(t, con)
	}
	opts.WithConsole = con
	opts.NoSignals = true
	vx, err := vaxis.New(opts)
	if err != nil {
		return nil, err
	}
	return &Session{Term: t, Con: con, Vx: vx}, nil
}

// Sync injects a unique private-use key after whatever input is pending and
// waits until it is delivered: everything the terminal sent before it has then
// been processed by the input goroutine. Events read meanwhile are returned.
func (s *Session) Sync() ([]vaxis.Event, bool) {
	s.syncN++
	r := rune(0xE000 + s.syncN%0x1800)
	s.Con.Inject([]byte(string(r)))
	var evs []vaxis.Event
	deadline := time.After(20 * time.Second)
	for {
		select {
		case ev := <-s.Vx.Events():
			if k, ok := ev.(vaxis.Key); ok && k.Keycode == r {
				return evs, true
			}
			evs = append(evs, ev)
		case <-deadline:
			return evs, false
		}
	}
}

// Close closes the Vaxis with a generous bound; it reports false when Close
// did not return (the session is then abandoned: shutdown liveness is the
// subject of C04/C10, not of the check using this helper).
func (s *Session) Close() bool {
	done := make(chan struct{})
	go func() {
		defer func() { recover() }()
		s.Vx.Close()
		close(done)
	}()
	// keep the queue drained so that the input goroutine is never parked
	// on a full queue while Close waits for it
	deadline := time.After(20 * time.Second)
	for {
		select {
		case <-done:
			return true
		case <-s.Vx.Events():
		case <-deadline:
			return false
		}
	}
}

// DrainEvents empties the event queue without blocking.
func (s *Session) DrainEvents() (n int) {
	for {
		select {
		case ev := <-s.Vx.Events():
			_ = ev
			n++
		default:
			return n
		}
	}
}

// WaitEvent waits for an event satisfying pred, up to a generous bound.
func (s *Session) WaitEvent(pred func(vaxis.Event) bool, d time.Duration) bool {
	deadline := time.After(d)
	for {
		select {
		case ev := <-s.Vx.Events():
			if pred(ev) {
				return true
			}
		case <-deadline:
			return false
		}
	}
}

// Method returns the width method a terminal with the given caps uses once
// vaxis has enabled what it advertises.
func Method(c refterm.Caps) widthtab.Method {
	if c.Unicode || c.ExplicitWidth {
		return widthtab.Unicode
	}
	return widthtab.Wcwidth
}
