// Package refterm is an independent xterm/VT-compatible reference terminal
// written from the DEC / xterm / kitty control-sequence documentation. It
// shares no code with the library under test. It interprets what vaxis writes
// (grid, cursor, mode table, vocabulary log, replies to queries) and is the
// reference VT for the embedded emulator.
package refterm

import (
	"encoding/base64"
	"fmt"
	"strconv"
	"strings"
	"unicode/utf8"

	"github.com/rivo/uniseg"

	"verif/internal/widthtab"
)

// ---------------------------------------------------------------------------
// data model

type ColorKind uint8

const (
	ColDefault ColorKind = iota
	ColIndexed
	ColRGB
)

type Color struct {
	K ColorKind
	V uint32 // index, or 0xRRGGBB
}

func (c Color) String() string {
	switch c.K {
	case ColIndexed:
		return fmt.Sprintf("idx%d", c.V)
	case ColRGB:
		return fmt.Sprintf("#%06x", c.V)
	}
	return "def"
}

// attribute bits (refterm's own numbering)
const (
	ABold = 1 << iota
	ADim
	AItalic
	ABlink
	AReverse
	AInvisible
	AStrike
)

type Style struct {
	Fg, Bg, Ul Color
	Attr       uint8
	UlStyle    uint8 // 0 off, 1 single, 2 double, 3 curly, 4 dotted, 5 dashed
	Link       string
	LinkParams string
}

func (s Style) String() string {
	return fmt.Sprintf("{fg=%s bg=%s ul=%s/%d attr=%07b link=%q/%q}", s.Fg, s.Bg, s.Ul, s.UlStyle, s.Attr, s.Link, s.LinkParams)
}

type Cell struct {
	G        string // grapheme, "" = blank
	W        int    // 1 or 2 for a leading cell, 0 for a continuation cell
	Cont     bool
	Style    Style
	Poison   string // non-empty: content is terminal-specific (why)
	EitherBg bool   // background may legitimately be default or Style.Bg
	Sixel    bool
}

// Caps are the features this terminal advertises and implements.
type Caps struct {
	Sync          bool // 2026
	Unicode       bool // 2027
	ColorScheme   bool // 2031
	InBand        bool // 2048
	KittyKB       bool
	KittyGfx      bool
	Sixel         bool
	TextArea      bool   // CSI 14 t / 18 t
	ExplicitWidth bool   // OSC 66
	RGB           bool   // XTGETTCAP RGB
	Smulx         bool   // XTGETTCAP Smulx
	VTE           bool   // tertiary DA ~VTE
	XTVersion     string // XTVERSION reply, "" = unsupported
	DECRQSS       bool
	OSC4          bool
	OSC1011       bool
	OSC176        bool
}

// CapNames lists the boolean capability flags in a fixed order (for subset
// enumeration).
var CapNames = []string{"sync", "unicode", "colorscheme", "inband", "kittykb", "kittygfx", "sixel", "textarea", "explicitwidth", "rgb", "smulx", "vte", "xtversion", "decrqss", "osc4", "osc1011", "osc176"}

// CapsFromMask builds a capability set from a bit mask over CapNames.
func CapsFromMask(m uint32) Caps {
	b := func(i int) bool { return m&(1<<uint(i)) != 0 }
	c := Caps{Sync: b(0), Unicode: b(1), ColorScheme: b(2), InBand: b(3), KittyKB: b(4), KittyGfx: b(5), Sixel: b(6), TextArea: b(7), ExplicitWidth: b(8), RGB: b(9), Smulx: b(10), VTE: b(11), DECRQSS: b(13), OSC4: b(14), OSC1011: b(15), OSC176: b(16)}
	if b(12) {
		c.XTVersion = "refterm(1.0)"
	}
	return c
}

func (c Caps) Mask() uint32 {
	var m uint32
	set := func(i int, v bool) {
		if v {
			m |= 1 << uint(i)
		}
	}
	set(0, c.Sync)
	set(1, c.Unicode)
	set(2, c.ColorScheme)
	set(3, c.InBand)
	set(4, c.KittyKB)
	set(5, c.KittyGfx)
	set(6, c.Sixel)
	set(7, c.TextArea)
	set(8, c.ExplicitWidth)
	set(9, c.RGB)
	set(10, c.Smulx)
	set(11, c.VTE)
	set(12, c.XTVersion != "")
	set(13, c.DECRQSS)
	set(14, c.OSC4)
	set(15, c.OSC1011)
	set(16, c.OSC176)
	return m
}

// StyledUnderlines reports whether the terminal advertises styled underlines
// (XTGETTCAP Smulx or the VTE tertiary DA).
func (c Caps) StyledUnderlines() bool { return c.Smulx || c.VTE }

// Class of a received sequence.
type Class int

const (
	Baseline Class = iota
	Gated          // legitimate only with Cap
	Probe          // a query; legitimate inside a probe span
	Unknown
)

func (c Class) String() string { return [...]string{"baseline", "gated", "probe", "unknown"}[c] }

type LogEntry struct {
	Seq       string
	Class     Class
	Cap       string // capability that gates it ("" if none)
	HaveCap   bool
	InStartup bool
	WriteNo   int
}

type GfxEvent struct {
	Action     string // t, T, p, d, q
	ID         int
	Placement  int
	Keys       map[string]string
	Row, Col   int // cursor position at the time
	More       bool
	PayloadLen int
}

type screenBuf struct {
	cells [][]Cell
	saved *savedCursor
}

type savedCursor struct {
	r, c int
	pen  Style
}

// Terminal is the reference terminal.
type Terminal struct {
	Cols, Rows int
	Caps       Caps

	prim, alt *screenBuf
	cur       *screenBuf
	AltActive bool

	R, C int  // cursor
	PW   bool // pending wrap
	Pen  Style

	Top, Bot int // scroll region, inclusive

	CursorVisible   bool
	CursorShape     int // DECSCUSR Ps
	UserCursorShape int // what DECRQSS reports (prior value)

	Modes            map[int]bool
	KeypadApp        bool
	KittyStack       []int // pushed flag values (top = current)
	KittyFlags       int   // current flags (of the active screen)
	// the keyboard mode stack and flags of the screen that is not active
	// (kitty keyboard protocol: "the main and alternate screens must
	// maintain their own, independent, keyboard mode stacks")
	kittyStackOther []int
	kittyFlagsOther int
	PointerShape     string
	AppID            string
	Title            string
	SyncDepth        int
	Bells            int
	Notifications    int
	Clipboard        string
	HasClipboard     bool
	Palette          func(i int) uint32
	FgColor, BgColor uint32
	ColorSchemeDark  bool
	CellW, CellH     int // pixel size of a cell (for 14t / 48t / sixel geometry)
	// PadW, PadH: pixels of the text area beyond cols*CellW x rows*CellH (a
	// window whose pixel size is no multiple of the cell grid)
	PadW, PadH int

	// vocabulary log
	Log         []LogEntry
	LogCounts   map[string]int
	LogLimit    int
	startupDone bool
	writeNo     int

	// SixelVia: how a terminal with sixel support says so: "" = in the
	// device attributes (attribute 4) and in the XTSMGRAPHICS reply, "da1" =
	// attribute 4 only (the graphics query is not answered), "xtsmgraphics" =
	// the graphics reply only
	SixelVia string
	// NoOSC10 / NoOSC11: the terminal answers only one of the two default
	// colour queries although Caps.OSC1011 is set
	NoOSC10, NoOSC11 bool

	// UnsupportedModeReport is the DECRPM status reported for private modes
	// the terminal does not support: 0 (not recognised) or 4 (permanently reset).
	UnsupportedModeReport int

	Gfx        []GfxEvent
	SixelCount int
	SixelAt    [][3]int // row, col (cursor when the sixel arrived), body length

	replies []byte

	// width method
	WidthOf         func(cluster string, m widthtab.Method) (int, bool)
	UntrustedWidths int
	PoisonEvents    int

	// parser state
	st           pstate
	params       []byte
	inter        []byte
	strBuf       []byte
	strKind      byte
	utf          []byte
	run          []rune // printable run being accumulated (unicode mode)
	lastR, lastC int
	lastValid    bool
	curSeq       []byte
	strTerm      string
	// ILDLColumnEither is set by IL/DL: ECMA-48/DEC move the cursor to column
	// 0, xterm leaves it; comparators may accept either and clear the flag.
	ILDLColumnEither bool
}

type pstate int

const (
	sGround pstate = iota
	sEsc
	sEscInter
	sCSI
	sStr    // OSC / DCS / APC / SOS / PM collecting until ST
	sStrEsc // saw ESC inside a string
)

// New creates a terminal with default state.
func New(cols, rows int, caps Caps) *Terminal {
	t := &Terminal{Cols: cols, Rows: rows, Caps: caps, LogLimit: 20000}
	t.prim = newBuf(cols, rows)
	t.alt = newBuf(cols, rows)
	t.cur = t.prim
	t.Bot = rows - 1
	t.CursorVisible = true
	t.Modes = map[int]bool{7: true, 25: true}
	t.PointerShape = "text"
	t.LogCounts = map[string]int{}
	t.Palette = DefaultPalette
	t.FgColor = 0xd0d0d0
	t.BgColor = 0x101010
	t.ColorSchemeDark = true
	t.CellW, t.CellH = 8, 16
	t.HasClipboard = true
	t.WidthOf = widthtab.Lookup
	return t
}

func newBuf(cols, rows int) *screenBuf {
	b := &screenBuf{cells: make([][]Cell, rows)}
	for r := range b.cells {
		b.cells[r] = make([]Cell, cols)
		for c := range b.cells[r] {
			b.cells[r][c] = Cell{W: 1}
		}
	}
	return b
}

// DefaultPalette is the xterm 256-colour palette.
func DefaultPalette(i int) uint32 {
	base := []uint32{0x000000, 0xcd0000, 0x00cd00, 0xcdcd00, 0x0000ee, 0xcd00cd, 0x00cdcd, 0xe5e5e5,
		0x7f7f7f, 0xff0000, 0x00ff00, 0xffff00, 0x5c5cff, 0xff00ff, 0x00ffff, 0xffffff}
	switch {
	case i < 16:
		return base[i]
	case i < 232:
		i -= 16
		lv := []uint32{0, 0x5f, 0x87, 0xaf, 0xd7, 0xff}
		return lv[i/36]<<16 | lv[(i/6)%6]<<8 | lv[i%6]
	default:
		v := uint32(8 + 10*(i-232))
		return v<<16 | v<<8 | v
	}
}

// Cell returns the cell at (row, col) of the active screen.
func (t *Terminal) Cell(r, c int) Cell { return t.cur.cells[r][c] }

// SetCellRaw lets a harness place content directly (scrambling). The grid is
// kept consistent: the partner half of a wide glyph that is replaced becomes a
// plain blank (no poison: this is prior terminal content, not application
// output).
func (t *Terminal) SetCellRaw(r, c int, cell Cell) {
	row := t.cur.cells[r]
	old := row[c]
	if old.Cont && c > 0 && row[c-1].W == 2 {
		row[c-1] = Cell{W: 1}
	}
	if old.W == 2 && c+1 < len(row) && row[c+1].Cont {
		row[c+1] = Cell{W: 1}
	}
	row[c] = cell
}

// TakeReplies returns and clears the bytes the terminal wants to send.
func (t *Terminal) TakeReplies() []byte {
	r := t.replies
	t.replies = nil
	return r
}

func (t *Terminal) reply(s string) { t.replies = append(t.replies, s...) }

// Resize changes the terminal size (content is kept where it fits) and, when
// in-band resize reports are enabled, queues the report.
func (t *Terminal) Resize(cols, rows int) {
	for _, b := range []*screenBuf{t.prim, t.alt} {
		nb := newBuf(cols, rows)
		for r := 0; r < rows && r < len(b.cells); r++ {
			for c := 0; c < cols && c < len(b.cells[r]); c++ {
				nb.cells[r][c] = b.cells[r][c]
			}
			// a wide glyph cut in half by the new right edge
			if cols > 0 && cols <= len(b.cells[r]) && nb.cells[r][cols-1].W == 2 {
				nb.cells[r][cols-1] = Cell{W: 1, Poison: "wide glyph cut by resize"}
			}
		}
		b.cells = nb.cells
	}
	t.Cols, t.Rows = cols, rows
	t.Top, t.Bot = 0, rows-1
	if t.R >= rows {
		t.R = rows - 1
	}
	if t.C >= cols {
		t.C = cols - 1
	}
	if t.R < 0 {
		t.R = 0
	}
	if t.C < 0 {
		t.C = 0
	}
	t.PW = false
	t.lastValid = false
	if t.Modes[2048] && t.Caps.InBand {
		t.sendInBand()
	}
}

func (t *Terminal) sendInBand() {
	t.reply(fmt.Sprintf("\x1b[48;%d;%d;%d;%dt", t.Rows, t.Cols, t.Rows*t.CellH+t.PadH, t.Cols*t.CellW+t.PadW))
}

// ---------------------------------------------------------------------------
// vocabulary log

func (t *Terminal) logSeq(class Class, cap string, have bool) {
	key := class.String()
	if cap != "" {
		key += ":" + cap
		if !have {
			key += ":missing"
		}
	}
	t.LogCounts[key]++
	if class == Baseline && len(t.Log) > 2000 {
		return // keep the log small; baseline entries are only counted
	}
	if len(t.Log) < t.LogLimit {
		t.Log = append(t.Log, LogEntry{Seq: printable(t.curSeq), Class: class, Cap: cap, HaveCap: have, InStartup: !t.startupDone, WriteNo: t.writeNo})
	}
}

func printable(b []byte) string { return Printable(b, 120) }

// Printable renders bytes readably (ESC, ^X).
func Printable(b []byte, limit int) string {
	var sb strings.Builder
	for _, c := range b {
		switch {
		case c == 0x1b:
			sb.WriteString("ESC")
		case c < 0x20 || c == 0x7f:
			fmt.Fprintf(&sb, "^%c", c^0x40)
		default:
			sb.WriteByte(c)
		}
		if sb.Len() > limit {
			sb.WriteString("…")
			break
		}
	}
	return sb.String()
}

func (t *Terminal) baseline()                   { t.logSeq(Baseline, "", true) }
func (t *Terminal) gated(cap string, have bool) { t.logSeq(Gated, cap, have) }
func (t *Terminal) probe(cap string, have bool) { t.logSeq(Probe, cap, have) }
func (t *Terminal) unknown()                    { t.logSeq(Unknown, "", false) }

// StartupDone reports whether the DA1 query that ends the start-up probe
// block has been seen.
func (t *Terminal) StartupDone() bool { return t.startupDone }

// ResetStartup re-opens the start-up span (harness use: a new vaxis.New on the
// same terminal).
func (t *Terminal) ResetStartup() { t.startupDone = false }

// ---------------------------------------------------------------------------
// input

// Write feeds bytes written by the application.
func (t *Terminal) Write(p []byte) (int, error) {
	t.writeNo++
	for _, b := range p {
		t.feed(b)
	}
	t.flushRun()
	// an incomplete UTF-8 sequence stays pending across writes
	return len(p), nil
}

func (t *Terminal) feed(b byte) {
	switch t.st {
	case sGround:
		t.ground(b)
	case sEsc:
		t.curSeq = append(t.curSeq, b)
		t.esc(b)
	case sEscInter:
		t.curSeq = append(t.curSeq, b)
		t.escInter(b)
	case sCSI:
		t.curSeq = append(t.curSeq, b)
		t.csi(b)
	case sStr:
		t.str(b)
	case sStrEsc:
		if b == '\\' {
			t.curSeq = append(t.curSeq, 0x1b, '\\')
			t.st = sGround
			t.strEnd()
		} else {
			// ESC cancels the string; start a new escape sequence
			t.st = sGround
			t.strCancelled()
			t.startEsc()
			t.curSeq = append(t.curSeq, b)
			t.esc(b)
		}
	}
}

func (t *Terminal) startEsc() {
	t.flushRun()
	t.flushUTF()
	t.st = sEsc
	t.curSeq = append(t.curSeq[:0], 0x1b)
	t.inter = t.inter[:0]
	t.params = t.params[:0]
}

func (t *Terminal) ground(b byte) {
	switch {
	case b == 0x1b:
		t.startEsc()
	case b < 0x20 || b == 0x7f:
		t.flushRun()
		t.flushUTF()
		t.curSeq = append(t.curSeq[:0], b)
		t.c0(b)
	default:
		t.utf = append(t.utf, b)
		if b < 0x80 {
			t.utf = t.utf[:0]
			t.printRune(rune(b))
			return
		}
		if utf8.FullRune(t.utf) {
			r, n := utf8.DecodeRune(t.utf)
			if r == utf8.RuneError && n == 1 {
				// invalid byte: shown as replacement, terminal-specific
				t.utf = t.utf[1:]
				t.printRune(utf8.RuneError)
				// re-scan remaining bytes
				rest := append([]byte(nil), t.utf...)
				t.utf = t.utf[:0]
				for _, x := range rest {
					t.ground(x)
				}
				return
			}
			t.utf = t.utf[:0]
			t.printRune(r)
		} else if len(t.utf) >= 4 {
			t.utf = t.utf[:0]
			t.printRune(utf8.RuneError)
		}
	}
}

func (t *Terminal) flushUTF() {
	if len(t.utf) > 0 {
		t.utf = t.utf[:0]
		t.printRune(utf8.RuneError)
		t.flushRun()
	}
}

func (t *Terminal) c0(b byte) {
	switch b {
	case 0x00:
		// NUL ignored
	case 0x07:
		t.Bells++
		t.baseline()
	case 0x08:
		if t.C > 0 {
			t.C--
		}
		t.PW = false
		t.lastValid = false
		t.baseline()
	case 0x09:
		n := (t.C/8 + 1) * 8
		if n > t.Cols-1 {
			n = t.Cols - 1
		}
		t.C = n
		t.lastValid = false
		t.baseline()
	case 0x0a, 0x0b, 0x0c:
		t.lineFeed()
		t.baseline()
	case 0x0d:
		t.C = 0
		t.PW = false
		t.lastValid = false
		t.baseline()
	case 0x0e, 0x0f:
		t.baseline()
	default:
		// other C0: ignored
	}
}

func (t *Terminal) blank() Cell { return Cell{W: 1} }

func (t *Terminal) eraseCell(either bool) Cell {
	c := Cell{W: 1}
	c.Style.Bg = t.Pen.Bg
	c.EitherBg = either && t.Pen.Bg.K != ColDefault
	return c
}

func (t *Terminal) lineFeed() {
	t.lastValid = false
	if t.R == t.Bot {
		t.scrollUp(t.Top, t.Bot, 1)
	} else if t.R < t.Rows-1 {
		t.R++
	}
}

func (t *Terminal) reverseIndex() {
	t.lastValid = false
	if t.R == t.Top {
		t.scrollDown(t.Top, t.Bot, 1)
	} else if t.R > 0 {
		t.R--
	}
}

func (t *Terminal) scrollUp(top, bot, n int) {
	if n > bot-top+1 {
		n = bot - top + 1
	}
	g := t.cur.cells
	for i := 0; i < n; i++ {
		first := g[top]
		copy(g[top:bot], g[top+1:bot+1])
		for c := range first {
			first[c] = t.eraseCell(true)
		}
		g[bot] = first
	}
}

func (t *Terminal) scrollDown(top, bot, n int) {
	if n > bot-top+1 {
		n = bot - top + 1
	}
	g := t.cur.cells
	for i := 0; i < n; i++ {
		last := g[bot]
		copy(g[top+1:bot+1], g[top:bot])
		for c := range last {
			last[c] = t.eraseCell(true)
		}
		g[top] = last
	}
}

// ---------------------------------------------------------------------------
// printing

func (t *Terminal) unicodeMode() bool { return t.Modes[2027] && t.Caps.Unicode }

func (t *Terminal) printRune(r rune) {
	if t.unicodeMode() {
		t.run = append(t.run, r)
		return
	}
	// wcwidth per code point
	w, ok := widthtab.RuneWidth(r)
	if !ok {
		w = fallbackRuneWidth(r)
		t.UntrustedWidths++
	}
	if r == utf8.RuneError {
		t.placeCluster(string(r), 1, "invalid UTF-8 shown as replacement")
		return
	}
	if w == 0 {
		// attaches to the previously printed cell, if any
		if t.lastValid {
			cell := &t.cur.cells[t.lastR][t.lastC]
			cell.G += string(r)
		} else {
			if t.R < t.Rows && t.C < t.Cols {
				t.poison(t.R, t.C, "zero-width code point with nothing to attach to")
			}
		}
		return
	}
	t.placeCluster(string(r), w, "")
}

func (t *Terminal) flushRun() {
	if len(t.run) == 0 {
		return
	}
	s := string(t.run)
	t.run = t.run[:0]
	state := -1
	for len(s) > 0 {
		var cl string
		cl, s, _, state = uniseg.FirstGraphemeClusterInString(s, state)
		w, ok := t.WidthOf(cl, widthtab.Unicode)
		if !ok {
			w = uniseg.StringWidth(cl)
			t.UntrustedWidths++
		}
		if w == 0 {
			if t.lastValid {
				t.cur.cells[t.lastR][t.lastC].G += cl
			} else if t.R < t.Rows && t.C < t.Cols {
				t.poison(t.R, t.C, "zero-width cluster with nothing to attach to")
			}
			continue
		}
		if w > 2 {
			w = 2
		}
		t.placeCluster(cl, w, "")
	}
}

func fallbackRuneWidth(r rune) int {
	// Only used outside the curated alphabet (counted as untrusted).
	return uniseg.StringWidth(string(r))
}

func (t *Terminal) poison(r, c int, why string) {
	t.PoisonEvents++
	cell := &t.cur.cells[r][c]
	*cell = Cell{W: 1, Poison: why}
}

// breakWide: a cell about to be overwritten; if it is half of a wide glyph the
// other half becomes poison.
func (t *Terminal) breakWide(r, c int) {
	row := t.cur.cells[r]
	cell := row[c]
	if cell.Cont && c > 0 {
		t.poison(r, c-1, "left half of an overwritten wide glyph")
	}
	if cell.W == 2 && c+1 < len(row) && row[c+1].Cont {
		t.poison(r, c+1, "right half of an overwritten wide glyph")
	}
}

func (t *Terminal) placeCluster(g string, w int, poison string) {
	if t.PW {
		t.C = 0
		t.PW = false
		t.lineFeed()
	}
	if w == 2 && t.C == t.Cols-1 {
		if t.Cols == 1 {
			// cannot be shown at all
			t.poison(t.R, t.C, "wide glyph on a one-column terminal")
			t.PW = true
			return
		}
		// a wide glyph does not fit in the last column: terminals differ in
		// what they leave there
		t.poison(t.R, t.C, "wide glyph did not fit in the last column")
		t.C = 0
		t.lineFeed()
	}
	t.breakWide(t.R, t.C)
	if w == 2 {
		t.breakWide(t.R, t.C+1)
	}
	t.cur.cells[t.R][t.C] = Cell{G: g, W: w, Style: t.Pen, Poison: poison}
	if w == 2 {
		t.cur.cells[t.R][t.C+1] = Cell{Cont: true, W: 0, Style: t.Pen}
	}
	t.lastR, t.lastC, t.lastValid = t.R, t.C, true
	if t.C+w >= t.Cols {
		t.C = t.Cols - 1
		t.PW = true
	} else {
		t.C += w
	}
}

// ---------------------------------------------------------------------------
// ESC

func (t *Terminal) esc(b byte) {
	switch {
	case b == 0x1b:
		t.startEsc()
	case b == 0x18 || b == 0x1a:
		t.st = sGround
	case b < 0x20:
		t.c0(b)
	case b >= 0x20 && b <= 0x2f:
		t.inter = append(t.inter, b)
		t.st = sEscInter
	case b == '[':
		t.st = sCSI
	case b == ']', b == 'P', b == '_', b == '^', b == 'X':
		t.st = sStr
		t.strKind = b
		t.strBuf = t.strBuf[:0]
	default:
		t.st = sGround
		t.escDispatch(b)
	}
}

func (t *Terminal) escInter(b byte) {
	switch {
	case b == 0x1b:
		t.startEsc()
	case b == 0x18 || b == 0x1a:
		t.st = sGround
	case b < 0x20:
		t.c0(b)
	case b >= 0x20 && b <= 0x2f:
		t.inter = append(t.inter, b)
	default:
		t.st = sGround
		// charset designations etc: baseline, no effect on the model
		switch t.inter[0] {
		case '(', ')', '*', '+', '#', ' ', '%':
			t.baseline()
		default:
			t.unknown()
		}
	}
}

func (t *Terminal) escDispatch(b byte) {
	t.lastValid = false
	switch b {
	case '=':
		t.KeypadApp = true
		t.baseline()
	case '>':
		t.KeypadApp = false
		t.baseline()
	case '7':
		t.saveCursor()
		t.baseline()
	case '8':
		t.restoreCursor()
		t.baseline()
	case 'D':
		t.lineFeed()
		t.baseline()
	case 'E':
		t.lineFeed()
		t.C = 0
		t.PW = false
		t.baseline()
	case 'M':
		t.reverseIndex()
		t.baseline()
	case 'H':
		t.baseline() // HTS
	case 'c':
		t.ris()
		t.baseline()
	case '\\':
		// stray ST: no-op
		t.baseline()
	default:
		t.unknown()
	}
}

func (t *Terminal) saveCursor() {
	t.cur.saved = &savedCursor{t.R, t.C, t.Pen}
}

func (t *Terminal) restoreCursor() {
	// an open hyperlink (OSC 8) is no rendition DECSC/DECRC know about: it
	// stays as it is until it is closed
	link, lp := t.Pen.Link, t.Pen.LinkParams
	defer func() { t.Pen.Link, t.Pen.LinkParams = link, lp }()
	if t.cur.saved == nil {
		t.R, t.C, t.Pen = 0, 0, Style{}
	} else {
		t.R, t.C, t.Pen = t.cur.saved.r, t.cur.saved.c, t.cur.saved.pen
		if t.R >= t.Rows {
			t.R = t.Rows - 1
		}
		if t.C >= t.Cols {
			t.C = t.Cols - 1
		}
	}
	t.PW = false
}

func (t *Terminal) ris() {
	caps, cols, rows := t.Caps, t.Cols, t.Rows
	log, lc := t.Log, t.LogCounts
	n := New(cols, rows, caps)
	n.Log, n.LogCounts = log, lc
	n.WidthOf = t.WidthOf
	n.startupDone = t.startupDone
	n.writeNo = t.writeNo
	n.replies = t.replies
	n.curSeq = t.curSeq
	*t = *n
}

// ---------------------------------------------------------------------------
// CSI

func (t *Terminal) csi(b byte) {
	switch {
	case b == 0x1b:
		t.startEsc()
	case b == 0x18 || b == 0x1a:
		t.st = sGround
	case b < 0x20:
		t.c0(b)
	case b == 0x7f:
	case b >= 0x30 && b <= 0x3f:
		t.params = append(t.params, b)
	case b >= 0x20 && b <= 0x2f:
		t.inter = append(t.inter, b)
	case b >= 0x40 && b <= 0x7e:
		t.st = sGround
		t.csiDispatch(b)
	default:
		t.st = sGround
	}
}

// parseParams splits "1;2:3;;4" into [[1],[2,3],[-1],[4]]; -1 = omitted.
func parseParams(p []byte) [][]int {
	if len(p) == 0 {
		return nil
	}
	var out [][]int
	cur := []int{}
	v, have := 0, false
	push := func() {
		if have {
			cur = append(cur, v)
		} else {
			cur = append(cur, -1)
		}
		v, have = 0, false
	}
	for _, b := range p {
		switch {
		case b >= '0' && b <= '9':
			if v < 1<<24 {
				v = v*10 + int(b-'0')
			}
			have = true
		case b == ':':
			push()
		case b == ';':
			push()
			out = append(out, cur)
			cur = []int{}
		}
	}
	push()
	out = append(out, cur)
	return out
}

func pv(ps [][]int, i, def int) int {
	if i >= len(ps) || len(ps[i]) == 0 || ps[i][0] <= 0 {
		return def
	}
	return ps[i][0]
}

func pv0(ps [][]int, i int) int {
	if i >= len(ps) || len(ps[i]) == 0 || ps[i][0] < 0 {
		return 0
	}
	return ps[i][0]
}

func (t *Terminal) csiDispatch(final byte) {
	priv := byte(0)
	params := t.params
	if len(params) > 0 && params[0] >= 0x3c && params[0] <= 0x3f {
		priv = params[0]
		params = params[1:]
	}
	for _, b := range params {
		if b >= 0x3c && b <= 0x3f {
			t.unknown()
			return
		}
	}
	ps := parseParams(params)
	inter := string(t.inter)
	key := string([]byte{priv}) + "|" + inter + "|" + string([]byte{final})
	if priv == 0 {
		key = "|" + inter + "|" + string([]byte{final})
	}
	moved := true
	switch key {
	case "||H", "||f":
		t.R = clamp(pv(ps, 0, 1)-1, 0, t.Rows-1)
		t.C = clamp(pv(ps, 1, 1)-1, 0, t.Cols-1)
		t.PW = false
		t.baseline()
	case "||A":
		n := pv(ps, 0, 1)
		lim := 0
		if t.R >= t.Top {
			lim = t.Top
		}
		t.R = max(lim, t.R-n)
		t.PW = false
		t.baseline()
	case "||B", "||e":
		n := pv(ps, 0, 1)
		if final == 'e' {
			t.R = min(t.Rows-1, t.R+n)
		} else {
			lim := t.Rows - 1
			if t.R <= t.Bot {
				lim = t.Bot
			}
			t.R = min(lim, t.R+n)
		}
		t.PW = false
		t.baseline()
	case "||C", "||a":
		t.C = min(t.Cols-1, t.C+pv(ps, 0, 1))
		t.PW = false
		t.baseline()
	case "||D":
		t.C = max(0, t.C-pv(ps, 0, 1))
		t.PW = false
		t.baseline()
	case "||E":
		n := pv(ps, 0, 1)
		lim := t.Rows - 1
		if t.R <= t.Bot {
			lim = t.Bot
		}
		t.R = min(lim, t.R+n)
		t.C = 0
		t.PW = false
		t.baseline()
	case "||F":
		n := pv(ps, 0, 1)
		lim := 0
		if t.R >= t.Top {
			lim = t.Top
		}
		t.R = max(lim, t.R-n)
		t.C = 0
		t.PW = false
		t.baseline()
	case "||G", "||`":
		t.C = clamp(pv(ps, 0, 1)-1, 0, t.Cols-1)
		t.PW = false
		t.baseline()
	case "||d":
		t.R = clamp(pv(ps, 0, 1)-1, 0, t.Rows-1)
		t.PW = false
		t.baseline()
	case "||J":
		t.eraseDisplay(pv0(ps, 0))
		t.baseline()
	case "||K":
		t.eraseLine(pv0(ps, 0))
		t.baseline()
	case "||X":
		n := pv(ps, 0, 1)
		for c := t.C; c < t.Cols && c < t.C+n; c++ {
			t.breakWide(t.R, c)
			t.cur.cells[t.R][c] = t.eraseCell(false)
		}
		t.baseline()
	case "||@":
		t.insertChars(pv(ps, 0, 1))
		t.baseline()
	case "||P":
		t.deleteChars(pv(ps, 0, 1))
		t.baseline()
	case "||L":
		if t.R >= t.Top && t.R <= t.Bot {
			t.scrollDown(t.R, t.Bot, pv(ps, 0, 1))
			t.ILDLColumnEither = true
		}
		t.PW = false
		t.baseline()
	case "||M":
		if t.R >= t.Top && t.R <= t.Bot {
			t.scrollUp(t.R, t.Bot, pv(ps, 0, 1))
			t.ILDLColumnEither = true
		}
		t.PW = false
		t.baseline()
	case "||S":
		t.scrollUp(t.Top, t.Bot, pv(ps, 0, 1))
		t.baseline()
	case "||T":
		t.scrollDown(t.Top, t.Bot, pv(ps, 0, 1))
		t.baseline()
	case "||r":
		top := pv(ps, 0, 1)
		bot := pv(ps, 1, t.Rows)
		if bot > t.Rows {
			bot = t.Rows
		}
		if top < bot {
			t.Top, t.Bot = top-1, bot-1
			t.R, t.C, t.PW = 0, 0, false
		}
		t.baseline()
	case "||m":
		t.sgr(ps)
		moved = false
	case "||h", "||l":
		// ANSI modes (IRM 4, LNM 20): baseline
		for i := range ps {
			if m := pv0(ps, i); m == 4 || m == 20 {
				t.Modes[-m] = final == 'h'
			}
		}
		t.baseline()
		moved = false
	case "?||h", "?||l":
		t.decModes(ps, final == 'h')
		moved = false
	case "| |q":
		t.CursorShape = pv0(ps, 0)
		t.baseline()
		moved = false
	case "||n":
		switch pv0(ps, 0) {
		case 6:
			t.probe("", true)
			t.reply(fmt.Sprintf("\x1b[%d;%dR", t.R+1, t.C+1))
		case 5:
			t.probe("", true)
			t.reply("\x1b[0n")
		default:
			t.unknown()
		}
		moved = false
	case "?||n":
		switch pv0(ps, 0) {
		case 996:
			t.gated("colorscheme", t.Caps.ColorScheme)
			if t.Caps.ColorScheme {
				m := 2
				if t.ColorSchemeDark {
					m = 1
				}
				t.reply(fmt.Sprintf("\x1b[?997;%dn", m))
			}
		default:
			t.unknown()
		}
		moved = false
	case "||c":
		t.probe("", true)
		if t.Caps.Sixel && t.SixelVia != "xtsmgraphics" {
			t.reply("\x1b[?62;4;22c")
		} else {
			t.reply("\x1b[?62c")
		}
		t.startupDone = true
		moved = false
	case "=||c":
		t.probe("vte", t.Caps.VTE)
		if t.Caps.VTE {
			t.reply("\x1bP!|7E565445\x1b\\")
		}
		moved = false
	case ">||c":
		t.probe("", true)
		t.reply("\x1b[>1;10;0c")
		moved = false
	case ">||q":
		t.probe("xtversion", t.Caps.XTVersion != "")
		if t.Caps.XTVersion != "" {
			t.reply("\x1bP>|" + t.Caps.XTVersion + "\x1b\\")
		}
		moved = false
	case "?|$|p":
		mode := pv0(ps, 0)
		t.probe("", true)
		// 0 = not recognised; a terminal may also know a mode it cannot
		// enable and report 4 (permanently reset): still not supported
		v := t.UnsupportedModeReport
		if t.modeRecognised(mode) {
			v = 2
			if t.Modes[mode] {
				v = 1
			}
		}
		t.reply(fmt.Sprintf("\x1b[?%d;%d$y", mode, v))
		moved = false
	case "?||u":
		t.probe("kittykb", t.Caps.KittyKB)
		if t.Caps.KittyKB {
			t.reply(fmt.Sprintf("\x1b[?%du", t.KittyFlags))
		}
		moved = false
	case ">||u":
		t.gated("kittykb", t.Caps.KittyKB)
		if t.Caps.KittyKB {
			t.KittyStack = append(t.KittyStack, t.KittyFlags)
			t.KittyFlags = pv0(ps, 0)
		}
		moved = false
	case "<||u":
		t.gated("kittykb", t.Caps.KittyKB)
		if t.Caps.KittyKB {
			n := pv(ps, 0, 1)
			for i := 0; i < n; i++ {
				if len(t.KittyStack) == 0 {
					t.KittyFlags = 0
					break
				}
				t.KittyFlags = t.KittyStack[len(t.KittyStack)-1]
				t.KittyStack = t.KittyStack[:len(t.KittyStack)-1]
			}
		}
		moved = false
	case "=||u":
		t.gated("kittykb", t.Caps.KittyKB)
		if t.Caps.KittyKB {
			f, mode := pv0(ps, 0), pv(ps, 1, 1)
			switch mode {
			case 1:
				t.KittyFlags = f
			case 2:
				t.KittyFlags |= f
			case 3:
				t.KittyFlags &^= f
			}
		}
		moved = false
	case "||t":
		switch pv0(ps, 0) {
		case 14:
			t.probe("textarea", t.Caps.TextArea)
			if t.Caps.TextArea {
				t.reply(fmt.Sprintf("\x1b[4;%d;%dt", t.Rows*t.CellH+t.PadH, t.Cols*t.CellW+t.PadW))
			}
		case 18:
			t.probe("textarea", t.Caps.TextArea)
			if t.Caps.TextArea {
				t.reply(fmt.Sprintf("\x1b[8;%d;%dt", t.Rows, t.Cols))
			}
		case 22, 23:
			t.baseline() // title stack
		default:
			t.unknown()
		}
		moved = false
	case "?||S":
		if pv0(ps, 0) == 2 && pv0(ps, 1) == 1 {
			t.probe("sixel", t.Caps.Sixel)
			if t.Caps.Sixel && t.SixelVia != "da1" {
				t.reply(fmt.Sprintf("\x1b[?2;0;%d;%dS", t.Cols*t.CellW, t.Rows*t.CellH))
			}
		} else {
			t.unknown()
		}
		moved = false
	case "||b":
		// REP: outside the modelled vocabulary for comparison purposes
		t.baseline()
	case "||g", "||I", "||Z", "||W":
		t.baseline()
	case "||s":
		t.saveCursor()
		t.baseline()
	case "||u":
		t.restoreCursor()
		t.baseline()
	default:
		t.unknown()
		moved = false
	}
	if moved {
		t.lastValid = false
	}
}

func clamp(v, lo, hi int) int {
	if v < lo {
		return lo
	}
	if v > hi {
		return hi
	}
	return v
}

func (t *Terminal) modeRecognised(m int) bool {
	switch m {
	case 2026:
		return t.Caps.Sync
	case 2027:
		return t.Caps.Unicode
	case 2031:
		return t.Caps.ColorScheme
	case 2048:
		return t.Caps.InBand
	case 8452:
		return t.Caps.Sixel
	case 1, 6, 7, 12, 25, 47, 1000, 1002, 1003, 1004, 1005, 1006, 1007, 1015, 1047, 1048, 1049, 2004:
		return true
	}
	return false
}

func (t *Terminal) decModes(ps [][]int, set bool) {
	for i := range ps {
		m := pv0(ps, i)
		saved := t.curSeq
		switch m {
		case 2026:
			t.gated("sync", t.Caps.Sync)
			if t.Caps.Sync {
				if set {
					t.SyncDepth++
				} else {
					t.SyncDepth--
				}
				t.Modes[m] = t.SyncDepth > 0
			}
		case 2027:
			t.gated("unicode", t.Caps.Unicode)
			if t.Caps.Unicode {
				t.flushRun()
				t.Modes[m] = set
			}
		case 2031:
			t.gated("colorscheme", t.Caps.ColorScheme)
			if t.Caps.ColorScheme {
				t.Modes[m] = set
			}
		case 2048:
			t.gated("inband", t.Caps.InBand)
			if t.Caps.InBand {
				t.Modes[m] = set
				if set {
					t.sendInBand()
				}
			}
		case 8452:
			t.gated("sixel", t.Caps.Sixel)
			if t.Caps.Sixel {
				t.Modes[m] = set
			}
		case 1049:
			t.baseline()
			t.altScreen(set)
			t.Modes[m] = set
		case 25:
			t.baseline()
			t.CursorVisible = set
			t.Modes[m] = set
		case 1, 5, 6, 7, 12, 45, 47, 66, 67, 1000, 1001, 1002, 1003, 1004, 1005, 1006, 1007, 1015, 1016, 1047, 1048, 2004:
			t.baseline()
			t.Modes[m] = set
		default:
			t.unknown()
		}
		t.curSeq = saved
	}
}

// altScreen implements xterm's 1049 (charproc.c srm_OPT_ALTBUF_CURSOR): set =
// CursorSave, ToAlternate, ClearScreen; reset = FromAlternate, CursorRestore -
// the save/restore happens whether or not the screen actually switches.
func (t *Terminal) altScreen(on bool) {
	t.lastValid = false
	if on {
		t.saveCursor()
		if !t.AltActive {
			t.cur = t.alt
			t.AltActive = true
			t.swapKitty()
		}
		for r := range t.alt.cells {
			for c := range t.alt.cells[r] {
				t.alt.cells[r][c] = t.eraseCell(true)
			}
		}
		return
	}
	if t.AltActive {
		t.cur = t.prim
		t.AltActive = false
		t.swapKitty()
	}
	t.restoreCursor()
}

func (t *Terminal) swapKitty() {
	t.KittyStack, t.kittyStackOther = t.kittyStackOther, t.KittyStack
	t.KittyFlags, t.kittyFlagsOther = t.kittyFlagsOther, t.KittyFlags
}

func (t *Terminal) eraseDisplay(mode int) {
	switch mode {
	case 0:
		t.eraseLine(0)
		for r := t.R + 1; r < t.Rows; r++ {
			for c := 0; c < t.Cols; c++ {
				t.cur.cells[r][c] = t.eraseCell(false)
			}
		}
	case 1:
		for r := 0; r < t.R; r++ {
			for c := 0; c < t.Cols; c++ {
				t.cur.cells[r][c] = t.eraseCell(false)
			}
		}
		t.eraseLine(1)
	case 2, 3:
		for r := 0; r < t.Rows; r++ {
			for c := 0; c < t.Cols; c++ {
				t.cur.cells[r][c] = t.eraseCell(false)
			}
		}
	}
}

func (t *Terminal) eraseLine(mode int) {
	from, to := 0, t.Cols-1
	switch mode {
	case 0:
		from = t.C
	case 1:
		to = t.C
	case 2:
	default:
		return
	}
	if from > 0 {
		t.breakWide(t.R, from)
	}
	if to < t.Cols-1 {
		t.breakWide(t.R, to)
	}
	for c := from; c <= to; c++ {
		t.cur.cells[t.R][c] = t.eraseCell(false)
	}
}

func (t *Terminal) insertChars(n int) {
	row := t.cur.cells[t.R]
	if n > t.Cols-t.C {
		n = t.Cols - t.C
	}
	t.breakWide(t.R, t.C)
	copy(row[t.C+n:], row[t.C:t.Cols-n])
	for c := t.C; c < t.C+n; c++ {
		row[c] = t.eraseCell(true)
	}
	t.fixBrokenWide(t.R)
}

func (t *Terminal) deleteChars(n int) {
	row := t.cur.cells[t.R]
	if n > t.Cols-t.C {
		n = t.Cols - t.C
	}
	t.breakWide(t.R, t.C)
	copy(row[t.C:], row[t.C+n:])
	for c := t.Cols - n; c < t.Cols; c++ {
		row[c] = t.eraseCell(true)
	}
	t.fixBrokenWide(t.R)
}

// fixBrokenWide poisons halves of wide glyphs that lost their partner through
// a shift.
func (t *Terminal) fixBrokenWide(r int) {
	row := t.cur.cells[r]
	for c := 0; c < len(row); c++ {
		if row[c].W == 2 {
			if c+1 >= len(row) || !row[c+1].Cont {
				row[c] = Cell{W: 1, Poison: "wide glyph split by a shift"}
			} else {
				c++
			}
		} else if row[c].Cont {
			row[c] = Cell{W: 1, Poison: "wide glyph split by a shift"}
		}
	}
}

// ---------------------------------------------------------------------------
// SGR

func (t *Terminal) sgr(ps [][]int) {
	if len(ps) == 0 {
		ps = [][]int{{0}}
	}
	usedRGB, usedSmulx := false, false
	for i := 0; i < len(ps); i++ {
		p := ps[i]
		code := p[0]
		if code < 0 {
			code = 0
		}
		switch {
		case code == 0:
			link, lp := t.Pen.Link, t.Pen.LinkParams
			t.Pen = Style{Link: link, LinkParams: lp}
		case code == 1:
			t.Pen.Attr |= ABold
		case code == 2:
			t.Pen.Attr |= ADim
		case code == 3:
			t.Pen.Attr |= AItalic
		case code == 4:
			if len(p) > 1 {
				usedSmulx = true
				v := p[1]
				if v < 0 {
					v = 0
				}
				if v <= 5 {
					t.Pen.UlStyle = uint8(v)
				}
			} else {
				t.Pen.UlStyle = 1
			}
		case code == 5 || code == 6:
			t.Pen.Attr |= ABlink
		case code == 7:
			t.Pen.Attr |= AReverse
		case code == 8:
			t.Pen.Attr |= AInvisible
		case code == 9:
			t.Pen.Attr |= AStrike
		case code == 21:
			t.Pen.UlStyle = 2
		case code == 22:
			t.Pen.Attr &^= ABold | ADim
		case code == 23:
			t.Pen.Attr &^= AItalic
		case code == 24:
			t.Pen.UlStyle = 0
		case code == 25:
			t.Pen.Attr &^= ABlink
		case code == 27:
			t.Pen.Attr &^= AReverse
		case code == 28:
			t.Pen.Attr &^= AInvisible
		case code == 29:
			t.Pen.Attr &^= AStrike
		case code >= 30 && code <= 37:
			t.Pen.Fg = Color{ColIndexed, uint32(code - 30)}
		case code == 39:
			t.Pen.Fg = Color{}
		case code >= 40 && code <= 47:
			t.Pen.Bg = Color{ColIndexed, uint32(code - 40)}
		case code == 49:
			t.Pen.Bg = Color{}
		case code >= 90 && code <= 97:
			t.Pen.Fg = Color{ColIndexed, uint32(code - 90 + 8)}
		case code >= 100 && code <= 107:
			t.Pen.Bg = Color{ColIndexed, uint32(code - 100 + 8)}
		case code == 59:
			usedSmulx = true
			t.Pen.Ul = Color{}
		case code == 38 || code == 48 || code == 58:
			var col Color
			ok := false
			rgbForm := false
			if len(p) > 1 {
				// colon form
				switch p[1] {
				case 5:
					if len(p) >= 3 && p[2] >= 0 && p[2] <= 255 {
						col, ok = Color{ColIndexed, uint32(p[2])}, true
					}
				case 2:
					rgbForm = true
					var r, g, b int
					switch {
					case len(p) >= 6:
						r, g, b = p[3], p[4], p[5]
						ok = true
					case len(p) == 5:
						r, g, b = p[2], p[3], p[4]
						ok = true
					}
					if ok {
						col = Color{ColRGB, uint32(clamp(r, 0, 255))<<16 | uint32(clamp(g, 0, 255))<<8 | uint32(clamp(b, 0, 255))}
					}
				}
			} else if i+1 < len(ps) {
				switch ps[i+1][0] {
				case 5:
					if i+2 < len(ps) {
						v := ps[i+2][0]
						if v >= 0 && v <= 255 {
							col, ok = Color{ColIndexed, uint32(v)}, true
						}
						i += 2
					} else {
						i = len(ps)
					}
				case 2:
					rgbForm = true
					if i+4 < len(ps) {
						r, g, b := ps[i+2][0], ps[i+3][0], ps[i+4][0]
						col, ok = Color{ColRGB, uint32(clamp(r, 0, 255))<<16 | uint32(clamp(g, 0, 255))<<8 | uint32(clamp(b, 0, 255))}, true
						i += 4
					} else {
						i = len(ps)
					}
				default:
					i = len(ps)
				}
			}
			if rgbForm {
				usedRGB = true
			}
			if code == 58 {
				usedSmulx = true
			}
			if ok {
				switch code {
				case 38:
					t.Pen.Fg = col
				case 48:
					t.Pen.Bg = col
				case 58:
					t.Pen.Ul = col
				}
			}
		default:
			// unknown SGR code: ignored by terminals
			t.LogCounts["sgr-unknown-code"]++
		}
	}
	switch {
	case usedRGB && usedSmulx:
		t.gated("rgb", t.Caps.RGB)
		t.gated("smulx", t.Caps.StyledUnderlines())
	case usedRGB:
		t.gated("rgb", t.Caps.RGB)
	case usedSmulx:
		t.gated("smulx", t.Caps.StyledUnderlines())
	default:
		t.baseline()
	}
}

// ---------------------------------------------------------------------------
// strings: OSC / DCS / APC / SOS / PM

func (t *Terminal) str(b byte) {
	switch {
	case b == 0x1b:
		t.st = sStrEsc
	case b == 0x07 && t.strKind == ']':
		t.curSeq = append(t.curSeq, b)
		t.st = sGround
		t.strTerm = "\x07"
		t.strEnd()
	case b == 0x18 || b == 0x1a:
		t.st = sGround
		t.strCancelled()
	default:
		t.strBuf = append(t.strBuf, b)
		if len(t.curSeq) < 200 {
			t.curSeq = append(t.curSeq, b)
		}
	}
}

func (t *Terminal) strCancelled() {
	t.LogCounts["string-cancelled"]++
}

func (t *Terminal) strEnd() {
	term := "\x1b\\"
	if t.strTerm != "" {
		term = t.strTerm
		t.strTerm = ""
	}
	body := string(t.strBuf)
	switch t.strKind {
	case ']':
		t.osc(body, term)
	case 'P':
		t.dcs(body)
	case '_':
		t.apc(body)
	default:
		t.baseline() // SOS / PM ignored
	}
}

func (t *Terminal) osc(body, term string) {
	num := body
	rest := ""
	if i := strings.IndexByte(body, ';'); i >= 0 {
		num, rest = body[:i], body[i+1:]
	}
	switch num {
	case "0", "1", "2":
		t.Title = rest
		t.LogCounts["title"]++
		t.baseline()
	case "4":
		parts := strings.Split(rest, ";")
		if len(parts) == 2 && parts[1] == "?" {
			t.probe("osc4", t.Caps.OSC4)
			if t.Caps.OSC4 {
				n, _ := strconv.Atoi(parts[0])
				v := t.Palette(n & 255)
				t.reply(fmt.Sprintf("\x1b]4;%d;%s%s", n, rgbSpec(v), term))
			}
		} else {
			t.baseline()
		}
	case "10", "11":
		if rest == "?" {
			t.probe("osc1011", t.Caps.OSC1011)
			if t.Caps.OSC1011 && !(num == "10" && t.NoOSC10) && !(num == "11" && t.NoOSC11) {
				v := t.FgColor
				if num == "11" {
					v = t.BgColor
				}
				t.reply(fmt.Sprintf("\x1b]%s;%s%s", num, rgbSpec(v), term))
			}
		} else {
			t.baseline()
		}
	case "8":
		i := strings.IndexByte(rest, ';')
		if i < 0 {
			t.unknown()
			return
		}
		t.Pen.LinkParams, t.Pen.Link = rest[:i], rest[i+1:]
		if t.Pen.Link == "" {
			t.Pen.LinkParams = ""
		}
		t.baseline()
	case "9", "777":
		t.Notifications++
		t.baseline()
	case "22":
		t.PointerShape = rest
		t.baseline()
	case "52":
		parts := strings.SplitN(rest, ";", 2)
		if len(parts) == 2 && parts[1] == "?" {
			t.probe("", true)
			if t.HasClipboard {
				t.reply("\x1b]52;" + parts[0] + ";" + base64.StdEncoding.EncodeToString([]byte(t.Clipboard)) + term)
			}
		} else if len(parts) == 2 {
			if d, err := base64.StdEncoding.DecodeString(parts[1]); err == nil {
				t.Clipboard = string(d)
			}
			t.baseline()
		} else {
			t.unknown()
		}
	case "66":
		startupProbe := !t.startupDone
		if startupProbe {
			t.probe("explicitwidth", t.Caps.ExplicitWidth)
		} else {
			t.gated("explicitwidth", t.Caps.ExplicitWidth)
		}
		if !t.Caps.ExplicitWidth {
			return // ignored, text not shown
		}
		i := strings.IndexByte(rest, ';')
		if i < 0 {
			return
		}
		meta, text := rest[:i], rest[i+1:]
		w := 0
		for _, kv := range strings.Split(meta, ":") {
			if strings.HasPrefix(kv, "w=") {
				w, _ = strconv.Atoi(kv[2:])
			}
		}
		if w <= 0 {
			for _, r := range text {
				t.printRune(r)
			}
			t.flushRun()
			return
		}
		if w > 2 {
			// wider explicit widths are outside the model
			w = 2
			t.LogCounts["osc66-width>2"]++
		}
		t.placeCluster(text, w, "")
	case "176":
		if rest == "?" {
			t.probe("osc176", t.Caps.OSC176)
			if t.Caps.OSC176 {
				t.reply("\x1b]176;" + t.AppID + term)
			}
		} else {
			t.gated("osc176", t.Caps.OSC176)
			if t.Caps.OSC176 {
				t.AppID = rest
			}
		}
	case "7", "12", "104", "110", "111", "112", "133":
		t.baseline()
	default:
		t.unknown()
	}
}

func rgbSpec(v uint32) string {
	r, g, b := v>>16&255, v>>8&255, v&255
	return fmt.Sprintf("rgb:%02x%02x/%02x%02x/%02x%02x", r, r, g, g, b, b)
}

func (t *Terminal) dcs(body string) {
	switch {
	case strings.HasPrefix(body, "$q"):
		req := body[2:]
		if req == " q" {
			t.probe("decrqss", t.Caps.DECRQSS)
			if t.Caps.DECRQSS {
				t.reply(fmt.Sprintf("\x1bP1$r%d q\x1b\\", t.UserCursorShape))
			}
		} else {
			t.probe("decrqss", t.Caps.DECRQSS)
			if t.Caps.DECRQSS {
				t.reply("\x1bP0$r\x1b\\")
			}
		}
	case strings.HasPrefix(body, "+q"):
		name := body[2:]
		dec := hexDecode(name)
		have := false
		val := ""
		switch dec {
		case "RGB":
			have, val = t.Caps.RGB, "8/8/8"
		case "Smulx":
			have, val = t.Caps.Smulx, "\x1b[4:%p1%dm"
		}
		t.probe("xtgettcap:"+dec, have)
		if have {
			t.reply("\x1bP1+r" + name + "=" + strings.ToUpper(fmt.Sprintf("%x", val)) + "\x1b\\")
		} else {
			t.reply("\x1bP0+r" + name + "\x1b\\")
		}
	case isSixel(body):
		t.gated("sixel", t.Caps.Sixel)
		if t.Caps.Sixel {
			t.SixelCount++
			if len(t.SixelAt) < 100000 {
				t.SixelAt = append(t.SixelAt, [3]int{t.R, t.C, len(body)})
			}
		}
	default:
		t.unknown()
	}
}

// CoverWithSixel marks the w x h cells at (r, c) as covered by a sixel
// picture (the encoder vaxis uses sends no picture size in its raster
// attributes, so the harness, which knows the picture's cell size, says where
// a transmitted picture lies). The mark goes away when the cell is written or
// erased, which is the only way to remove a sixel picture.
func (t *Terminal) CoverWithSixel(r, c, w, h int) {
	for y := r; y < r+h && y < t.Rows; y++ {
		for x := c; x < c+w && x < t.Cols; x++ {
			if y >= 0 && x >= 0 {
				t.cur.cells[y][x].Sixel = true
			}
		}
	}
}

// SixelCovered lists the cells still covered by a sixel picture.
func (t *Terminal) SixelCovered() [][2]int {
	var out [][2]int
	for r := range t.cur.cells {
		for c := range t.cur.cells[r] {
			if t.cur.cells[r][c].Sixel {
				out = append(out, [2]int{r, c})
			}
		}
	}
	return out
}

func isSixel(body string) bool {
	i := 0
	for i < len(body) && (body[i] >= '0' && body[i] <= '9' || body[i] == ';') {
		i++
	}
	return i < len(body) && body[i] == 'q'
}

func hexDecode(s string) string {
	if len(s)%2 != 0 {
		return ""
	}
	var b []byte
	for i := 0; i+1 < len(s); i += 2 {
		v, err := strconv.ParseUint(s[i:i+2], 16, 8)
		if err != nil {
			return ""
		}
		b = append(b, byte(v))
	}
	return string(b)
}

func (t *Terminal) apc(body string) {
	if !strings.HasPrefix(body, "G") {
		t.unknown()
		return
	}
	ctrl := body[1:]
	payload := ""
	if i := strings.IndexByte(ctrl, ';'); i >= 0 {
		ctrl, payload = ctrl[:i], ctrl[i+1:]
	}
	keys := map[string]string{}
	for _, kv := range strings.Split(ctrl, ",") {
		if i := strings.IndexByte(kv, '='); i > 0 {
			keys[kv[:i]] = kv[i+1:]
		}
	}
	a := keys["a"]
	if a == "" {
		a = "t"
	}
	id, _ := strconv.Atoi(keys["i"])
	if a == "q" {
		t.probe("kittygfx", t.Caps.KittyGfx)
		if t.Caps.KittyGfx {
			t.reply(fmt.Sprintf("\x1b_Gi=%d;OK\x1b\\", id))
		}
		return
	}
	t.gated("kittygfx", t.Caps.KittyGfx)
	pl, _ := strconv.Atoi(keys["p"])
	ev := GfxEvent{Action: a, ID: id, Placement: pl, Keys: keys, Row: t.R, Col: t.C, More: keys["m"] == "1", PayloadLen: len(payload)}
	if len(t.Gfx) < 100000 {
		t.Gfx = append(t.Gfx, ev)
	}
}

func min(a, b int) int {
	if a < b {
		return a
	}
	return b
}

func max(a, b int) int {
	if a > b {
		return a
	}
	return b
}

// Dump renders the active grid for debugging.
func (t *Terminal) Dump() string {
	var sb strings.Builder
	fmt.Fprintf(&sb, "  grid %dx%d cursor=(%d,%d) pw=%v visible=%v shape=%d alt=%v\n", t.Cols, t.Rows, t.R, t.C, t.PW, t.CursorVisible, t.CursorShape, t.AltActive)
	for r := 0; r < t.Rows && r < 40; r++ {
		sb.WriteString("  |")
		for c := 0; c < t.Cols && c < 100; c++ {
			cell := t.cur.cells[r][c]
			switch {
			case cell.Poison != "":
				sb.WriteString("\u2620")
			case cell.Cont:
				sb.WriteString("<")
			case cell.G == "":
				sb.WriteString("\u00b7")
			default:
				sb.WriteString(cell.G)
			}
		}
		sb.WriteString("|\n")
	}
	return sb.String()
}

// ModeTable returns every piece of terminal state an application can change
// and is expected to restore, in comparable form.
func (t *Terminal) ModeTable() map[string]string {
	m := map[string]string{}
	for k, v := range t.Modes {
		if v {
			m[fmt.Sprintf("mode:%d", k)] = "set"
		}
	}
	m["keypad-application"] = fmt.Sprint(t.KeypadApp)
	m["kitty-keyboard"] = fmt.Sprintf("flags=%d stack=%v", t.KittyFlags, t.KittyStack)
	m["kitty-keyboard-of-the-other-screen"] = fmt.Sprintf("flags=%d stack=%v", t.kittyFlagsOther, t.kittyStackOther)
	m["cursor-visible"] = fmt.Sprint(t.CursorVisible)
	m["cursor-shape"] = fmt.Sprint(t.CursorShape)
	m["pointer-shape"] = t.PointerShape
	m["app-id"] = t.AppID
	m["pen"] = t.Pen.String()
	m["alternate-screen"] = fmt.Sprint(t.AltActive)
	m["sync-depth"] = fmt.Sprint(t.SyncDepth)
	return m
}
