// Package widthtab is the curated grapheme alphabet with hand-stated display
// widths. The widths are stated by hand from the Unicode data files
// (EastAsianWidth.txt, emoji-data.txt, UAX #29 cluster rules), *not* computed
// with go-runewidth or uniseg, so that oracles that depend on width are not
// circular with the library under test.
package widthtab

// Method names the width method of a terminal.
type Method int

const (
	Wcwidth Method = iota // per code point wcwidth, variation selectors ignored
	NoZWJ                 // grapheme clusters, but ZWJ sequences are not joined
	Unicode               // grapheme clusters (mode 2027 / explicit width)
)

// Entry is one curated grapheme cluster.
type Entry struct {
	G       string
	Name    string
	Wc      int // width under Wcwidth (sum over code points)
	NoZWJ   int
	Unicode int
	// Merging: true when the cluster could merge with a neighbour (lone
	// combining mark, half flag); excluded from "non-merging" alphabets.
	Merging bool
}

// Table is the curated alphabet.
var Table = []Entry{
	{"a", "ascii a", 1, 1, 1, false},
	{"b", "ascii b", 1, 1, 1, false},
	{"Z", "ascii Z", 1, 1, 1, false},
	{"0", "digit", 1, 1, 1, false},
	{"-", "hyphen", 1, 1, 1, false},
	{"~", "tilde", 1, 1, 1, false},
	{"\u00e9", "latin-1 e acute (U+00E9)", 1, 1, 1, false},
	{"\u00df", "latin-1 sharp s", 1, 1, 1, false},
	{"\u0444", "cyrillic ef", 1, 1, 1, false},
	{"\u4f60", "CJK U+4F60", 2, 2, 2, false},
	{"\u597d", "CJK U+597D", 2, 2, 2, false},
	{"\ud55c", "hangul syllable U+D55C", 2, 2, 2, false},
	{"\uff21", "fullwidth A U+FF21", 2, 2, 2, false},
	{"e\u0301", "e + combining acute", 1, 1, 1, false},
	{"a\u0308\u0301", "a + two combining marks", 1, 1, 1, false},
	{"\U0001F600", "emoji grinning face", 2, 2, 2, false},
	{"\U0001F469\u200d\U0001F680", "ZWJ emoji woman astronaut", 4, 4, 2, false},
	{"\U0001F468\u200d\U0001F469\u200d\U0001F467", "ZWJ family (3 emoji)", 6, 6, 2, false},
	{"\U0001F44D\U0001F3FD", "thumbs up + skin tone", 4, 2, 2, false},
	{"\u2600\ufe0f", "sun + VS16", 1, 2, 2, false},
	{"\u2764\ufe0f", "heart + VS16", 1, 2, 2, false},
}

// Extra entries that are used only where a check says so (merging or odd).
var Odd = []Entry{
	{"\u0301", "lone combining acute", 0, 0, 0, true},
	{"\u200d", "lone ZWJ", 0, 0, 0, true},
	{"\U0001F1FA\U0001F1F8", "flag US (two regional indicators)", 2, 2, 2, false},
}

var byG = map[string]Entry{}

// code point widths (wcwidth) for every code point occurring in the tables
var cpWidth = map[rune]int{
	'\u0301': 0, '\u0308': 0, '\u200d': 0, '\ufe0f': 0,
	'\u4f60': 2, '\u597d': 2, '\ud55c': 2, '\uff21': 2,
	'\U0001F600': 2, '\U0001F469': 2, '\U0001F680': 2, '\U0001F468': 2, '\U0001F467': 2,
	'\U0001F44D': 2, '\U0001F3FD': 2,
	'\u2600': 1, '\u2764': 1,
	'\U0001F1FA': 1, '\U0001F1F8': 1,
	'\u00e9': 1, '\u00df': 1, '\u0444': 1, '\u2026': 1,
}

func init() {
	for _, e := range Table {
		byG[e.G] = e
	}
	for _, e := range Odd {
		byG[e.G] = e
	}
}

// Lookup returns the hand-stated width of a curated cluster.
func Lookup(g string, m Method) (int, bool) {
	if len(g) == 1 && g[0] >= 0x20 && g[0] < 0x7f {
		return 1, true
	}
	e, ok := byG[g]
	if !ok {
		return 0, false
	}
	switch m {
	case Wcwidth:
		return e.Wc, true
	case NoZWJ:
		return e.NoZWJ, true
	default:
		return e.Unicode, true
	}
}

// RuneWidth returns the hand-stated wcwidth of a code point of the curated
// alphabet.
func RuneWidth(r rune) (int, bool) {
	if r >= 0x20 && r < 0x7f {
		return 1, true
	}
	w, ok := cpWidth[r]
	return w, ok
}

// NonMerging returns the clusters that never merge with a neighbour.
func NonMerging() []Entry { return Table }
