// Package gen holds the seeded generators shared by the checks.
package gen

import (
	"math/rand"

	"verif/internal/refterm"
	"verif/internal/vxh"
	"verif/internal/widthtab"
)

// R wraps a PRNG with convenience helpers.
type R struct{ *rand.Rand }

func New(seed int64) R { return R{rand.New(rand.NewSource(seed))} }

func (r R) Pick(n int) int        { return r.Intn(n) }
func (r R) Chance(p float64) bool { return r.Float64() < p }
func (r R) Range(lo, hi int) int  { return lo + r.Intn(hi-lo+1) }

// Color draws a colour from the five classes: default, 0-7, 8-15, 16-255, RGB.
func (r R) Color() refterm.Color {
	switch r.Intn(5) {
	case 0:
		return refterm.Color{}
	case 1:
		return refterm.Color{K: refterm.ColIndexed, V: uint32(r.Intn(8))}
	case 2:
		return refterm.Color{K: refterm.ColIndexed, V: uint32(8 + r.Intn(8))}
	case 3:
		return refterm.Color{K: refterm.ColIndexed, V: uint32(16 + r.Intn(240))}
	default:
		return refterm.Color{K: refterm.ColRGB, V: r.RGB()}
	}
}

var boundaryComp = []uint32{0, 1, 7, 8, 9, 0x2f, 0x30, 0x5e, 0x5f, 0x60, 0x73, 0x87, 0x9b, 0xaf, 0xc3, 0xd7, 0xeb, 0xfe, 0xff}

// RGB draws a boundary-rich 24-bit colour.
func (r R) RGB() uint32 {
	comp := func() uint32 {
		if r.Intn(3) == 0 {
			return uint32(r.Intn(256))
		}
		return boundaryComp[r.Intn(len(boundaryComp))]
	}
	return comp()<<16 | comp()<<8 | comp()
}

var links = []struct{ uri, params string }{
	{"", ""}, {"", ""}, {"", ""},
	{"https://a.example/x", ""},
	{"https://a.example/x", "id=1"},
	{"https://b.example/y?z=1", ""},
	{"https://c.example/doc;v=2?q=1", "id=2"}, // ';' is legal in a URI and is also OSC 8's field separator
}

// Style draws a style over all classes.
func (r R) Style() vxh.AppStyle {
	var s vxh.AppStyle
	if r.Intn(3) == 0 {
		return s // default style is common
	}
	s.Fg = r.Color()
	s.Bg = r.Color()
	if r.Intn(2) == 0 {
		s.Ul = r.Color()
	}
	switch r.Intn(4) {
	case 0:
		s.Attr = uint8(r.Intn(128))
	case 1:
		s.Attr = 1 << uint(r.Intn(7))
	}
	if r.Intn(2) == 0 {
		s.UlStyle = uint8(r.Intn(6))
	}
	l := links[r.Intn(len(links))]
	s.Link, s.LinkParams = l.uri, l.params
	return s
}

// Grapheme classes for cells.
const (
	GZero = iota // Cell{} zero value
	GBlank
	GNarrow
	GWide
	GCluster // multi-codepoint
	GLoneZW
	NGClasses
)

// Grapheme draws a grapheme of the given class from the curated table.
func (r R) Grapheme(class int) string {
	switch class {
	case GZero:
		return ""
	case GBlank:
		return " "
	case GNarrow:
		l := []string{"a", "b", "Z", "0", "-", "~", "\u00e9", "\u00df", "\u0444"}
		return l[r.Intn(len(l))]
	case GWide:
		l := []string{"\u4f60", "\u597d", "\ud55c", "\uff21", "\U0001F600"}
		return l[r.Intn(len(l))]
	case GCluster:
		l := []string{"e\u0301", "a\u0308\u0301", "\U0001F469\u200d\U0001F680", "\U0001F468\u200d\U0001F469\u200d\U0001F467", "\U0001F44D\U0001F3FD", "\u2600\ufe0f", "\u2764\ufe0f"}
		return l[r.Intn(len(l))]
	default:
		l := []string{"\u0301", "\u200d"}
		return l[r.Intn(len(l))]
	}
}

// Cell draws a cell. maxW is the number of columns available at the position
// (cells wider than that are not generated: no terminal can show them). m is
// the width method in effect.
func (r R) Cell(maxW int, m widthtab.Method, explicitOK bool) (vxh.AppCell, int) {
	for tries := 0; tries < 20; tries++ {
		class := r.Intn(NGClasses)
		if class == GLoneZW && r.Intn(3) != 0 {
			class = GNarrow
		}
		c := vxh.AppCell{G: r.Grapheme(class)}
		if class == GZero && r.Intn(2) == 0 {
			return c, class // true zero cell: default style
		}
		c.Style = r.Style()
		w, _ := vxh.EffWidth(c, m)
		if w > maxW {
			continue
		}
		// explicit width equal to the true width
		if explicitOK && class != GZero && class != GLoneZW && r.Intn(3) == 0 {
			c.Width = w
		}
		return c, class
	}
	return vxh.AppCell{G: "x"}, GNarrow
}
