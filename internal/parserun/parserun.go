// Package parserun drives the real ansi.Parser over a byte string with a
// scripted reader (chunking, end error) and flattens what it delivers into
// refparse tokens.
package parserun

import (
	"fmt"
	"io"
	"time"

	"git.sr.ht/~rockorager/vaxis/ansi"

	"verif/internal/refparse"
)

// Reader returns the input in the scripted chunks, then the end error.
type Reader struct {
	Data   []byte
	Chunks []int // sizes; when exhausted the rest is returned in one piece
	EndErr error // io.EOF if nil
	// Gate, if set, is called before each Read returns (delays, blocking).
	Gate func(readNo int, off int)
	// Block, if set, makes the reader block on this channel once the data is
	// exhausted instead of returning EndErr (silence).
	Block <-chan struct{}

	off      int
	ci       int
	readNo   int
	ReadEnds []int
	Done     bool
}

func (r *Reader) Read(p []byte) (int, error) {
	r.readNo++
	if r.Gate != nil {
		r.Gate(r.readNo, r.off)
	}
	if r.off >= len(r.Data) {
		if r.Block != nil {
			<-r.Block
		}
		r.Done = true
		if r.EndErr != nil {
			return 0, r.EndErr
		}
		return 0, io.EOF
	}
	n := len(r.Data) - r.off
	if r.ci < len(r.Chunks) {
		if r.Chunks[r.ci] < n {
			n = r.Chunks[r.ci]
		}
	}
	if n > len(p) {
		// the chunk does not fit: deliver what fits, keep the remainder of
		// the chunk for the next read
		if r.ci < len(r.Chunks) {
			r.Chunks[r.ci] -= len(p)
		}
		n = len(p)
	} else {
		r.ci++
	}
	if n <= 0 {
		n = 1
	}
	copy(p, r.Data[r.off:r.off+n])
	r.off += n
	r.ReadEnds = append(r.ReadEnds, r.off)
	return n, nil
}

// PrintInfo describes one delivered Print item.
type PrintInfo struct {
	Grapheme string
	Width    int
	TokStart int // index of its first rune token
	NRunes   int
}

// Obs is what the parser delivered.
type Obs struct {
	Toks     []refparse.Tok
	Prints   []PrintInfo
	Items    int
	EOFs     int
	AfterEOF int  // items delivered after the first EOF
	Closed   bool // channel closed
	Errors   int  // items of Go type error (diagnostics)
	Hung     bool
	ReadEnds []int
	Unknown  int // items of unexpected type
}

func toParams(ps [][]int) [][]int64 {
	if len(ps) == 0 {
		return nil
	}
	out := make([][]int64, len(ps))
	for i, p := range ps {
		out[i] = make([]int64, len(p))
		for j, v := range p {
			out[i][j] = int64(v)
		}
	}
	return out
}

// Flatten converts one delivered item (deep copy semantics: only values are
// read) and appends its tokens.
func (o *Obs) Flatten(seq ansi.Sequence) {
	o.Items++
	if o.EOFs > 0 {
		o.AfterEOF++
	}
	switch s := seq.(type) {
	case ansi.Print:
		pi := PrintInfo{Grapheme: s.Grapheme, Width: s.Width, TokStart: len(o.Toks)}
		for _, r := range s.Grapheme {
			o.Toks = append(o.Toks, refparse.Tok{K: 'T', R: r})
			pi.NRunes++
		}
		o.Prints = append(o.Prints, pi)
	case ansi.C0:
		o.Toks = append(o.Toks, refparse.Tok{K: 'C', R: rune(s)})
	case ansi.ESC:
		o.Toks = append(o.Toks, refparse.Tok{K: 'E', R: s.Final, Inter: string(s.Intermediate)})
	case ansi.SS3:
		o.Toks = append(o.Toks, refparse.Tok{K: '3', R: rune(s)})
	case ansi.CSI:
		o.Toks = append(o.Toks, refparse.Tok{K: 'I', R: s.Final, Inter: string(s.Intermediate), Params: toParams(s.Parameters)})
	case ansi.OSC:
		o.Toks = append(o.Toks, refparse.Tok{K: 'O', Data: string(s.Payload)})
	case ansi.DCS:
		var ps [][]int64
		for _, v := range s.Parameters {
			ps = append(ps, []int64{int64(v)})
		}
		o.Toks = append(o.Toks, refparse.Tok{K: 'D', R: s.Final, Inter: string(s.Intermediate), Params: ps, Data: string(s.Data)})
	case ansi.APC:
		o.Toks = append(o.Toks, refparse.Tok{K: 'A', Data: s.Data})
	case ansi.EOF:
		o.EOFs++
		o.Toks = append(o.Toks, refparse.Tok{K: 'Z'})
	case error:
		o.Errors++
		o.Items--
		if o.EOFs > 0 {
			o.AfterEOF--
		}
	default:
		o.Unknown++
		_ = fmt.Sprint(s)
	}
}

// Run feeds the reader to a real parser and collects everything until the
// channel is closed (or the generous watchdog fires).
func Run(rd *Reader, finish bool, watchdog time.Duration) Obs {
	var o Obs
	p := ansi.NewParser(rd)
	timer := time.NewTimer(watchdog)
	defer timer.Stop()
	for {
		select {
		case seq, ok := <-p.Next():
			if !ok {
				o.Closed = true
				o.ReadEnds = rd.ReadEnds
				return o
			}
			o.Flatten(seq)
			if finish {
				p.Finish(seq)
			}
			if o.Items > 3_000_000+10*len(rd.Data) {
				// a parser that keeps producing items after its input has
				// ended: same verdict as one that never closes
				o.Hung = true
				o.ReadEnds = rd.ReadEnds
				return o
			}
		case <-timer.C:
			o.Hung = true
			o.ReadEnds = rd.ReadEnds
			return o
		}
	}
}
