// Package evp drives encodings through a real Vaxis input pipeline: bytes are
// injected into the fake console and the resulting events are read from
// Events(), delimited by unique private-use sentinel keys.
package evp

import (
	"time"

	"git.sr.ht/~rockorager/vaxis"

	"verif/internal/refterm"
	"verif/internal/vxh"
)

// Pipe is a Vaxis instance used as a decoder.
type Pipe struct {
	Sess *vxh.Session
	n    int
}

// New starts a Vaxis on an in-memory console with the given capability mask.
func New(caps uint32, opts vaxis.Options) (*Pipe, error) {
	sess, err := vxh.Start(80, 24, refterm.CapsFromMask(caps), opts, nil)
	if err != nil {
		return nil, err
	}
	if _, ok := sess.Sync(); !ok {
		return nil, errTimeout
	}
	return &Pipe{Sess: sess}, nil
}

type timeoutErr struct{}

func (timeoutErr) Error() string { return "start-up sync timed out" }

var errTimeout error = timeoutErr{}

func (p *Pipe) Close() { p.Sess.Close() }

func sentinel(i int) rune { return rune(0xF0000 + i%0xFFFD) } // plane 15 private use

// Decode injects the encodings in one write, each followed by a unique
// sentinel, and returns the events each produced. ok=false when a sentinel
// did not arrive within a generous bound (the loop stopped consuming).
func (p *Pipe) Decode(encs [][]byte) (out [][]vaxis.Event, ok bool) {
	var buf []byte
	base := p.n
	for i, e := range encs {
		buf = append(buf, e...)
		buf = append(buf, []byte(string(sentinel(base+i)))...)
	}
	p.n += len(encs)
	p.Sess.Con.Inject(buf)
	out = make([][]vaxis.Event, len(encs))
	i := 0
	deadline := time.After(30 * time.Second)
	for i < len(encs) {
		select {
		case ev := <-p.Sess.Vx.Events():
			if k, isKey := ev.(vaxis.Key); isKey && k.Keycode == sentinel(base+i) && k.Modifiers == 0 {
				i++
				continue
			}
			out[i] = append(out[i], ev)
		case <-deadline:
			return out, false
		}
	}
	return out, true
}
