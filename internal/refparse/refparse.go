// Package refparse is an independent, table-style transcription of Paul Flo
// Williams' VT500 parser (vt100.net/emu/dec_ansi_parser) over decoded runes,
// plus exactly the extensions the property names: ':' accepted as a parameter
// byte producing sub-parameters; ESC O x -> SS3; APC payload collected and
// delivered; OSC terminated by BEL; the ESC \ that terminates a string is not
// delivered; ESC DEL is dispatched. It shares nothing with vaxis/ansi.
//
// Points the property leaves open are nondeterministic: Step returns several
// alternatives and Match accepts the observed token list if some run of the
// reference machine produces it.
package refparse

import (
	"fmt"
	"strings"
	"unicode/utf8"
)

// Tok is one item in flattened form (text is one token per rune).
type Tok struct {
	K         byte      // T text rune, C C0, E ESC, 3 SS3, I CSI, O OSC, D DCS, A APC, Z EOF
	R         rune      // T, C, 3: the rune; E, I, D: final
	Inter     string    // E, I, D
	Params    [][]int64 // I: params with sub-params; D: one element per param. -1 = any value
	AnyParams bool      // D: parameter list unconstrained
	Data      string    // O, D, A payload
}

func (t Tok) String() string {
	switch t.K {
	case 'T':
		return fmt.Sprintf("T(%q)", t.R)
	case 'C':
		return fmt.Sprintf("C0(%#x)", t.R)
	case 'E':
		return fmt.Sprintf("ESC(%q %q)", t.Inter, t.R)
	case '3':
		return fmt.Sprintf("SS3(%q)", t.R)
	case 'I':
		return fmt.Sprintf("CSI(%q %v %q)", t.Inter, t.Params, t.R)
	case 'O':
		return fmt.Sprintf("OSC(%q)", t.Data)
	case 'D':
		return fmt.Sprintf("DCS(%q %v %q data=%q)", t.Inter, t.Params, t.R, t.Data)
	case 'A':
		return fmt.Sprintf("APC(%q)", t.Data)
	case 'Z':
		return "EOF"
	}
	return "?"
}

// Desc is a short class description used in finding keys.
func (t Tok) Desc() string {
	switch t.K {
	case 'T':
		return "text"
	case 'C':
		return fmt.Sprintf("C0-%02x", t.R)
	case 'E':
		if t.R == '\\' && t.Inter == "" {
			return "ESC-backslash"
		}
		return "ESC"
	case '3':
		return "SS3"
	case 'I':
		return "CSI"
	case 'O':
		if t.Data == "" {
			return "OSC-empty"
		}
		return "OSC"
	case 'D':
		if t.Data == "" {
			return "DCS-emptydata"
		}
		return "DCS"
	case 'A':
		if t.Data == "" {
			return "APC-empty"
		}
		return "APC"
	case 'Z':
		return "EOF"
	}
	return "none"
}

func eqParams(a, b [][]int64) bool {
	if len(a) != len(b) {
		return false
	}
	for i := range a {
		if len(a[i]) != len(b[i]) {
			return false
		}
		for j := range a[i] {
			if a[i][j] != b[i][j] && a[i][j] != -1 && b[i][j] != -1 {
				return false
			}
		}
	}
	return true
}

// Eq compares a reference token (may contain wildcards) with an observed one.
func Eq(ref, real Tok) bool {
	if ref.K != real.K {
		return false
	}
	switch ref.K {
	case 'T', 'C', '3':
		return ref.R == real.R
	case 'E':
		return ref.R == real.R && ref.Inter == real.Inter
	case 'I':
		return ref.R == real.R && ref.Inter == real.Inter && eqParams(ref.Params, real.Params)
	case 'O', 'A':
		return ref.Data == real.Data
	case 'D':
		if ref.R != real.R || ref.Inter != real.Inter || ref.Data != real.Data {
			return false
		}
		return ref.AnyParams || eqParams(ref.Params, real.Params)
	}
	return true
}

// Decode turns bytes into runes: a valid UTF-8 scalar is that rune, every
// other byte is one rune carrying the byte value.
func Decode(b []byte) []rune {
	r, _, _ := DecodeInfo(b)
	return r
}

// DecodeInfo also returns, per rune, whether it came from an invalid byte and
// its byte offset (one extra entry: the total length).
func DecodeInfo(b []byte) (out []rune, raw []bool, offs []int) {
	o := 0
	for len(b) > 0 {
		r, n := utf8.DecodeRune(b)
		offs = append(offs, o)
		if r == utf8.RuneError && n == 1 {
			out = append(out, rune(b[0]))
			raw = append(raw, true)
		} else {
			out = append(out, r)
			raw = append(raw, false)
		}
		b = b[n:]
		o += n
	}
	offs = append(offs, o)
	return
}

// ---------------------------------------------------------------------------

type state uint8

const (
	Ground state = iota
	Escape
	EscInter
	CSIEntry
	CSIParam
	CSIInter
	CSIIgnore
	DCSEntry
	DCSParam
	DCSInter
	DCSPass
	DCSIgnore
	OSCString
	SosPm
	APCString
	SS3State
	nStates
)

var stateNames = [...]string{"ground", "escape", "esc-inter", "csi-entry", "csi-param", "csi-inter", "csi-ignore", "dcs-entry", "dcs-param", "dcs-inter", "dcs-pass", "dcs-ignore", "osc", "sos-pm", "apc", "ss3"}

func (s state) String() string { return stateNames[s] }

// NStates is the number of reference states.
const NStates = int(nStates)

// Class is the byte class of a rune for coverage accounting and keys.
func Class(r rune) string {
	switch {
	case r < 0:
		return "timeout"
	case r == 0x18 || r == 0x1a:
		return "CAN/SUB"
	case r == 0x1b:
		return "ESC"
	case r == 0x07:
		return "BEL"
	case r < 0x20:
		return "C0"
	case r <= 0x2f:
		return "20-2F"
	case r <= 0x39:
		return "digit"
	case r == 0x3a:
		return "colon"
	case r == 0x3b:
		return "semicolon"
	case r <= 0x3f:
		return "3C-3F"
	case r == 'O':
		return "O"
	case r == 'P':
		return "P"
	case r == 'X' || r == '^':
		return "X/^"
	case r == '_':
		return "_"
	case r == '[':
		return "["
	case r == '\\':
		return "backslash"
	case r == ']':
		return "]"
	case r < 0x7f:
		return "40-7E"
	case r == 0x7f:
		return "DEL"
	default:
		return "hi"
	}
}

// M is the reference machine configuration.
type M struct {
	S      state
	inter  string
	params string
	data   []rune // osc / dcs / apc payload
	dcs    Tok
	// escape was entered by an ESC that terminated a string (ST suppressed)
	afterString bool
	// escape was entered by an ESC that cancelled a DCS header (open point)
	stOpen   bool
	sosEmpty bool // no rune seen yet inside a SOS/PM/ignored-DCS string
	// context for finding keys
	lastSuppressed string // set when an ST was suppressed: "<kind>:<empty|nonempty>"
	strKind        string // kind of the string being collected / just ended
	strEmpty       bool
	lastStrEnd     string // how the most recent string ended: ST, BEL, CAN/SUB, ESC-other, EOF
}

func (m M) clone() M {
	n := m
	n.data = append([]rune(nil), m.data...)
	return n
}

// Alt is one alternative outcome of a step.
type Alt struct {
	M    M
	Toks []Tok
}

func isC0exec(r rune) bool {
	return (r >= 0 && r <= 0x17) || r == 0x19 || (r >= 0x1c && r <= 0x1f)
}

func in(r rune, lo, hi rune) bool { return r >= lo && r <= hi }

func parseCSIParams(s string) [][]int64 {
	if s == "" {
		return nil
	}
	var out [][]int64
	for _, p := range strings.Split(s, ";") {
		var subs []int64
		for _, sp := range strings.Split(p, ":") {
			subs = append(subs, num(sp))
		}
		out = append(out, subs)
	}
	return out
}

func num(s string) int64 {
	var v int64
	for _, c := range s {
		v = v*10 + int64(c-'0')
		if v > 1<<31-1 {
			return -1 // any value
		}
	}
	return v
}

func parseDCSParams(s string) ([][]int64, bool) {
	if s == "" {
		return nil, false
	}
	var out [][]int64
	anyP := false
	for _, p := range strings.Split(s, ";") {
		v := num(p)
		if v == -1 {
			anyP = true
		}
		out = append(out, []int64{v})
	}
	return out, anyP
}

// exit performs the exit action of the current state (string end).
func (m *M) exit() []Tok {
	switch m.S {
	case OSCString:
		t := Tok{K: 'O', Data: string(m.data)}
		m.data = nil
		return []Tok{t}
	case DCSPass:
		t := m.dcs
		t.Data = string(m.data)
		m.data = nil
		return []Tok{t}
	case APCString:
		t := Tok{K: 'A', Data: string(m.data)}
		m.data = nil
		return []Tok{t}
	}
	return nil
}

func (m M) isString() bool {
	switch m.S {
	case OSCString, DCSPass, DCSIgnore, SosPm, APCString:
		return true
	}
	return false
}

func (m M) kindName() string {
	switch m.S {
	case OSCString:
		return "osc"
	case DCSPass:
		return "dcs"
	case DCSIgnore:
		return "dcs-ignored"
	case SosPm:
		return "sos-pm"
	case APCString:
		return "apc"
	}
	return "none"
}

func (m M) isDCSHeader() bool {
	return m.S == DCSEntry || m.S == DCSParam || m.S == DCSInter
}

func one(m M, toks ...Tok) []Alt { return []Alt{{m, toks}} }

// hiAlts: a rune >= 0x80 arrived inside a sequence header; Williams' table is
// defined on bytes and says nothing: the sequence is aborted and the rune is
// either consumed or printed.
func hiAlts(m M, r rune) []Alt {
	g := m
	g.S = Ground
	g.inter, g.params = "", ""
	return []Alt{{g, nil}, {g, []Tok{{K: 'T', R: r}}}}
}

// TimeoutRune is a pseudo rune standing for "the Escape timeout elapsed here":
// in the escape state it delivers the Escape key and returns to ground,
// elsewhere it does nothing.
const TimeoutRune rune = -2

// Step consumes one rune.
func (m M) Step(r rune) []Alt {
	if r == TimeoutRune {
		if m.S == Escape {
			m.S = Ground
			m.afterString, m.stOpen = false, false
			return one(m, Tok{K: 'C', R: 0x1b})
		}
		return one(m)
	}
	// anywhere
	switch {
	case r == 0x18 || r == 0x1a:
		if m.isString() {
			m.lastStrEnd = m.kindName() + ":CAN/SUB"
		}
		toks := m.exit()
		m.S = Ground
		m.afterString, m.stOpen = false, false
		return one(m, append(toks, Tok{K: 'C', R: r})...)
	case r == 0x1b:
		wasString := m.isString()
		wasHeader := m.isDCSHeader()
		if wasString {
			m.strKind = m.kindName()
			m.strEmpty = m.S != DCSIgnore && len(m.data) == 0
			if m.S == SosPm || m.S == DCSIgnore {
				m.strEmpty = m.sosEmpty
			}
		}
		toks := m.exit()
		// ESC directly after the ESC that ended a string: whether a following
		// backslash still counts as that string's terminator is left open
		reopen := m.S == Escape && (m.afterString || m.stOpen)
		m.S = Escape
		m.inter, m.params = "", ""
		m.afterString, m.stOpen = wasString, wasHeader || reopen
		return one(m, toks...)
	}
	hi := r >= 0x80
	switch m.S {
	case Ground:
		if isC0exec(r) {
			return one(m, Tok{K: 'C', R: r})
		}
		return one(m, Tok{K: 'T', R: r})
	case Escape:
		after, afterHdr := m.afterString, m.stOpen
		switch {
		case isC0exec(r):
			// a C0 executed between the ESC that ended a string and a
			// following backslash: whether that backslash still counts as
			// the string's terminator is left open
			if m.afterString {
				m.afterString, m.stOpen = false, true
			}
			return one(m, Tok{K: 'C', R: r})
		case hi:
			m.afterString, m.stOpen = false, false
			return hiAlts(m, r)
		}
		m.afterString, m.stOpen = false, false
		switch {
		case in(r, 0x20, 0x2f):
			m.inter += string(r)
			m.S = EscInter
			return one(m)
		case r == 'O':
			m.S = SS3State
			return one(m)
		case r == 'P':
			m.S = DCSEntry
			m.inter, m.params = "", ""
			return one(m)
		case r == 'X' || r == '^':
			m.S = SosPm
			m.sosEmpty = true
			return one(m)
		case r == '_':
			m.S = APCString
			m.data = nil
			return one(m)
		case r == '[':
			m.S = CSIEntry
			m.inter, m.params = "", ""
			return one(m)
		case r == ']':
			m.S = OSCString
			m.data = nil
			return one(m)
		case r == '\\':
			m.S = Ground
			if after {
				e := "nonempty"
				if m.strEmpty {
					e = "empty"
				}
				m.lastSuppressed += m.strKind + ":" + e + ","
				m.lastStrEnd = m.strKind + ":ST"
				return one(m) // the ST that ended a string is not delivered
			}
			if afterHdr {
				// open point: ST after a DCS cancelled before its final byte
				return []Alt{{m, nil}, {m, []Tok{{K: 'E', R: r}}}}
			}
			return one(m, Tok{K: 'E', R: r})
		default: // 0x30-0x7F remaining finals (0x7F: Alt+Backspace extension)
			m.S = Ground
			return one(m, Tok{K: 'E', R: r})
		}
	case EscInter:
		switch {
		case isC0exec(r):
			return one(m, Tok{K: 'C', R: r})
		case hi:
			return hiAlts(m, r)
		case r == 0x7f:
			return one(m)
		case in(r, 0x20, 0x2f):
			m.inter += string(r)
			return one(m)
		default:
			t := Tok{K: 'E', R: r, Inter: m.inter}
			m.S = Ground
			m.inter = ""
			return one(m, t)
		}
	case SS3State:
		switch {
		case isC0exec(r):
			return one(m, Tok{K: 'C', R: r})
		case r == 0x7f:
			return one(m)
		case hi:
			alts := hiAlts(m, r)
			g := m
			g.S = Ground
			return append(alts, Alt{g, []Tok{{K: '3', R: r}}})
		default:
			m.S = Ground
			return one(m, Tok{K: '3', R: r})
		}
	case CSIEntry, CSIParam, CSIInter:
		switch {
		case isC0exec(r):
			return one(m, Tok{K: 'C', R: r})
		case hi:
			return hiAlts(m, r)
		case r == 0x7f:
			return one(m)
		case in(r, 0x40, 0x7e):
			t := Tok{K: 'I', R: r, Inter: m.inter, Params: parseCSIParams(m.params)}
			m.S = Ground
			m.inter, m.params = "", ""
			return one(m, t)
		}
		switch m.S {
		case CSIEntry:
			switch {
			case in(r, 0x30, 0x3b): // digits, ':' (extension), ';'
				m.params += string(r)
				m.S = CSIParam
			case in(r, 0x3c, 0x3f):
				m.inter += string(r)
				m.S = CSIParam
			case in(r, 0x20, 0x2f):
				m.inter += string(r)
				m.S = CSIInter
			}
		case CSIParam:
			switch {
			case in(r, 0x30, 0x3b):
				m.params += string(r)
			case in(r, 0x3c, 0x3f):
				m.S = CSIIgnore
			case in(r, 0x20, 0x2f):
				m.inter += string(r)
				m.S = CSIInter
			}
		case CSIInter:
			switch {
			case in(r, 0x20, 0x2f):
				m.inter += string(r)
			case in(r, 0x30, 0x3f):
				m.S = CSIIgnore
			}
		}
		return one(m)
	case CSIIgnore:
		switch {
		case isC0exec(r):
			return one(m, Tok{K: 'C', R: r})
		case hi:
			return append(hiAlts(m, r), Alt{m, nil})
		case in(r, 0x40, 0x7e):
			m.S = Ground
			m.inter, m.params = "", ""
			return one(m)
		}
		return one(m)
	case DCSEntry, DCSParam, DCSInter:
		switch {
		case isC0exec(r), r == 0x7f:
			return one(m)
		case hi:
			alts := hiAlts(m, r)
			h := m.hook(r)
			return append(alts, Alt{h, nil})
		case in(r, 0x40, 0x7e):
			return one(m.hook(r))
		}
		switch m.S {
		case DCSEntry:
			switch {
			case in(r, 0x20, 0x2f):
				m.inter += string(r)
				m.S = DCSInter
			case r == 0x3a:
				m.S = DCSIgnore
				m.sosEmpty = true
			case in(r, 0x30, 0x39), r == 0x3b:
				m.params += string(r)
				m.S = DCSParam
			case in(r, 0x3c, 0x3f):
				m.inter += string(r)
				m.S = DCSParam
			}
		case DCSParam:
			switch {
			case in(r, 0x30, 0x39), r == 0x3b:
				m.params += string(r)
			case r == 0x3a, in(r, 0x3c, 0x3f):
				m.S = DCSIgnore
				m.sosEmpty = true
			case in(r, 0x20, 0x2f):
				m.inter += string(r)
				m.S = DCSInter
			}
		case DCSInter:
			switch {
			case in(r, 0x20, 0x2f):
				m.inter += string(r)
			case in(r, 0x30, 0x3f):
				m.S = DCSIgnore
				m.sosEmpty = true
			}
		}
		return one(m)
	case DCSPass:
		if r == 0x7f {
			return one(m)
		}
		m = m.clone()
		m.data = append(m.data, r)
		return one(m)
	case DCSIgnore, SosPm:
		m.sosEmpty = false
		return one(m)
	case OSCString:
		switch {
		case r == 0x07:
			m.lastStrEnd = "osc:BEL"
			toks := m.exit()
			m.S = Ground
			return one(m, toks...)
		case isC0exec(r):
			return one(m)
		}
		m = m.clone()
		m.data = append(m.data, r)
		return one(m)
	case APCString:
		if isC0exec(r) {
			return one(m)
		}
		m = m.clone()
		m.data = append(m.data, r)
		return one(m)
	}
	return one(m)
}

func (m M) hook(r rune) M {
	ps, anyP := parseDCSParams(m.params)
	m.dcs = Tok{K: 'D', R: r, Inter: m.inter, Params: ps, AnyParams: anyP}
	m.S = DCSPass
	m.data = nil
	m.inter, m.params = "", ""
	return m
}

// End performs end of input: the exit action, then EOF.
func (m M) End() []Tok {
	return append(m.exit(), Tok{K: 'Z'})
}

// ---------------------------------------------------------------------------

// Result of matching an observed token list.
type Result struct {
	OK bool
	// Src[i] is the input rune index that produced observed token i (on
	// success; len(runes) for tokens produced at end of input)
	Src []int32
	// On mismatch:
	Key      string // finding key: previous token | expected | observed
	Detail   string
	RefState string
	At       int // rune index at which the last configuration died (len = at end)
	// coverage: (state,class) pairs exercised by surviving configurations
	Pairs map[string]struct{}
}

type cfg struct {
	m   M
	idx int
	src []int32 // input rune index that produced each matched token
}

// Match runs the reference machine over runes and accepts iff some run yields
// exactly the observed tokens.
func Match(runes []rune, real []Tok, pairs map[string]struct{}) Result {
	cfgs := []cfg{{M{}, 0, nil}}
	// best failure info
	bestIdx := -1
	var bestM M
	var bestTok Tok
	bestHave := false
	bestAt := 0
	note := func(c cfg, ref Tok, haveRef bool, at int) {
		if c.idx > bestIdx || (c.idx == bestIdx && at >= bestAt) {
			bestIdx = c.idx
			bestAt = at
			bestM = c.m
			bestTok, bestHave = ref, haveRef
		}
	}
	advance := func(c cfg, toks []Tok, at int) (cfg, bool) {
		for _, t := range toks {
			if c.idx >= len(real) {
				note(c, t, true, at)
				return c, false
			}
			if !Eq(t, real[c.idx]) {
				note(c, t, true, at)
				return c, false
			}
			c.idx++
			c.src = append(c.src, int32(at))
			if !(t.K == 'E' && t.R == '\\' && t.Inter == "") {
				c.m.lastSuppressed = ""
			}
		}
		return c, true
	}
	for i, r := range runes {
		var next []cfg
		for _, c := range cfgs {
			if pairs != nil {
				pairs[c.m.S.String()+"/"+Class(r)] = struct{}{}
			}
			alts := c.m.Step(r)
			for _, a := range alts {
				src := c.src
				if len(alts) > 1 {
					src = append([]int32(nil), c.src...)
				}
				nc, ok := advance(cfg{a.M, c.idx, src}, a.Toks, i)
				if ok {
					next = append(next, nc)
				}
			}
		}
		next = dedupe(next)
		if len(next) == 0 {
			return fail(real, bestIdx, bestTok, bestHave, bestM, bestAt)
		}
		cfgs = next
	}
	for _, c := range cfgs {
		nc, ok := advance(c, c.m.End(), len(runes))
		if ok {
			if nc.idx == len(real) {
				return Result{OK: true, Src: nc.src}
			}
			// observed has extra tokens after EOF
			note(nc, Tok{}, false, len(runes))
		}
	}
	return fail(real, bestIdx, bestTok, bestHave, bestM, bestAt)
}

func fail(real []Tok, idx int, ref Tok, haveRef bool, m M, at int) Result {
	prev, got, exp := "start", "none", "none"
	var g Tok
	haveGot := false
	if idx > 0 && idx-1 < len(real) {
		prev = real[idx-1].Desc()
	}
	if idx >= 0 && idx < len(real) {
		g = real[idx]
		haveGot = true
		got = g.Desc()
	}
	if haveRef {
		exp = ref.Desc()
	}
	isST := func(t Tok) bool { return t.K == 'E' && t.R == '\\' && t.Inter == "" }
	latin := func(s string) string { return strings.ReplaceAll(s, "\uFFFD", "\u00ef\u00bf\u00bd") }
	var key string
	switch {
	case haveGot && isST(g) && !(haveRef && isST(ref)):
		ctx := "no-string"
		if m.lastSuppressed != "" {
			l := strings.Split(strings.TrimSuffix(m.lastSuppressed, ","), ",")
			ctx = l[0]
			for _, c := range l {
				if strings.HasSuffix(c, ":empty") {
					ctx = c
					break
				}
			}
		}
		key = "extra-ST:after-" + ctx
	case haveRef && isST(ref) && !(haveGot && isST(g)):
		ctx := m.lastStrEnd
		if ctx == "" {
			ctx = "no-string"
		}
		key = "missing-ST:last-string-ended-" + ctx
	case haveRef && haveGot && ref.K == 'T' && ref.R == 0xFFFD && g.K == 'T' && g.R == 0xef:
		key = "text:U+FFFD-delivered-as-latin1"
	case haveRef && haveGot && ref.K == g.K && (ref.K == 'O' || ref.K == 'A' || ref.K == 'D') && ref.Data != g.Data && latin(ref.Data) == g.Data:
		key = "payload:U+FFFD-delivered-as-latin1"
	case haveRef && haveGot && ref.K == g.K:
		key = "differs:" + exp + ":state=" + m.S.String()
	default:
		key = "seq:ref=" + exp + "|real=" + got + "|state=" + m.S.String()
	}
	return Result{Key: key,
		Detail:   fmt.Sprintf("observed token #%d: reference expected %s, parser delivered %s (previous %s; reference state %s)", idx, exp, got, prev, m.S),
		RefState: m.S.String(), At: at}
}

func dedupe(cs []cfg) []cfg {
	if len(cs) < 2 {
		return cs
	}
	seen := map[string]struct{}{}
	out := cs[:0]
	for _, c := range cs {
		k := fmt.Sprintf("%d|%d|%s|%s|%s|%v|%v|%v", c.idx, c.m.S, c.m.inter, c.m.params, string(c.m.data), c.m.afterString, c.m.stOpen, c.m.dcs)
		if _, ok := seen[k]; ok {
			continue
		}
		seen[k] = struct{}{}
		out = append(out, c)
	}
	return out
}

// Expected returns one reference token list (first alternative everywhere),
// for display in reports.
func Expected(runes []rune) []Tok {
	m := M{}
	var out []Tok
	for _, r := range runes {
		a := m.Step(r)[0]
		out = append(out, a.Toks...)
		m = a.M
	}
	return append(out, m.End()...)
}
