#!/bin/bash
# tools_mutant.sh <Cxx> revert <sha>... | patch <file>   — runs a quick check against a scratch copy of /repo
# with a fix reverted (or a patch applied); prints the verdict lines. The scratch worktree is removed afterwards.
set -u
ID="$1"; MODE="$2"; shift; shift
WT=$(mktemp -d /tmp/wt-mut-XXXX)
rmdir "$WT"
git -C /repo worktree add -q "$WT" HEAD || exit 2
cleanup() { git -C /repo worktree remove --force "$WT" 2>/dev/null; rm -rf "$WT"; }
trap cleanup EXIT
cd "$WT"
if [ "$MODE" = revert ]; then
  for sha in "$@"; do git revert --no-commit "$sha" >/dev/null 2>&1 || { echo "MUTANT-SETUP-FAILED revert $sha conflicts"; git status --short | head; exit 3; }; done
else
  git apply "$1" || { echo "MUTANT-SETUP-FAILED patch does not apply"; exit 3; }
fi
export GOFLAGS=-mod=mod GOPROXY=off GOSUMDB=off GOTOOLCHAIN=local
go build ./... || { echo "MUTANT-SETUP-FAILED does not compile"; exit 3; }
if [ "${MUT_RUN_TESTS:-0}" = 1 ]; then go test -vet=off -count=1 ./... 2>&1 | grep -v 'no test files' | grep -v '^ok' ; fi
cd /verif
VERIF_REPO="$WT" timeout -s QUIT ${MUT_TIMEOUT:-900} ./run.sh "$ID" quick 2>&1 | grep -E '^(VIOLATION|SUMMARY|BROKEN)' | cut -c1-260 | head -${MUT_LINES:-6}
