import json,sys
d=json.load(open(sys.argv[1]))
v=d['violation']; c=v['case']
print(v['key'], '|', v['what'])
print('caps',c.get('caps_mask'),'size',c.get('cols'),c.get('rows'),'prior',c.get('prior_cursor'))
def cell(x):
    if not x: return ''
    st=x['Style']; 
    return '%r w=%s fg=%s bg=%s ul=%s/%s attr=%s link=%s'%(x['G'],x['Width'],st['Fg'],st['Bg'],st['Ul'],st['UlStyle'],st['Attr'],st['Link'])
for i,f in enumerate(c.get('frames',[])):
    print('frame',i,f['end'], f.get('new_cols'), f.get('new_rows'))
    for o in (f['ops'] or []):
        print('   ',o['op'],'col',o.get('col',0),'row',o.get('row',0),cell(o.get('cell')),o.get('text') or '', 'shape=%s'%o.get('shape') if o['op']=='showcursor' else '')
    for o in (f.get('after') or []):
        print('  after',o['op'],'col',o.get('col',0),'row',o.get('row',0),cell(o.get('cell')))
