#!/bin/bash
# tools_sweep.sh [tier] [seed...] — runs every claimed check once per seed and prints the SUMMARY/VIOLATION/BROKEN lines.
cd "$(dirname "$0")"
TIER="${1:-quick}"; shift
SEEDS="${*:-1}"
for seed in $SEEDS; do
  for id in $(python3 -c "import json;print(' '.join(c['property_id'] for c in json.load(open('MANIFEST.json'))['checks']))"); do
    out=$(VERIF_SEED=$seed timeout -s QUIT 3000 ./run.sh $id $TIER 2>&1); rc=$?
    echo "$out" | grep -E '^(VIOLATION|BROKEN|SUMMARY)' | cut -c1-220
    echo "   rc=$rc id=$id seed=$seed"
  done
done
