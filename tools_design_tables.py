#!/usr/bin/env python3
"""Regenerates the generated tables of DESIGN.md §7 (between the GENERATED markers) from
known_findings.json, seeded/*/meta.json, seeded/results.json and mutants/results.json."""
import json, os, re, subprocess
root = '/verif'
kf = json.load(open(f'{root}/known_findings.json'))
out = []
out.append('#### Table 7-A. Genuine defects repaired (`fix:` commits in /repo, one line per `fixed:` record)\n')
out.append('| property | commit | what failed | witness |\n|---|---|---|---|')
for x in kf:
    if x['status'] == 'fixed':
        out.append(f"| {x['property']} | `{x.get('commit','')}` | {x['what'].replace('|','/')} | {x.get('witness','').replace('|','/')} |")
out.append('\n#### Table 7-B. Open known findings (reported as KNOWN-FINDING, exit 0)\n')
out.append('| property | key | what fails |\n|---|---|---|')
for x in kf:
    if x['status'] == 'open':
        out.append(f"| {x['property']} | `{x['key']}` | {x['what'].replace('|','/')} |")
# seeds
res = json.load(open(f'{root}/seeded/results.json')) if os.path.exists(f'{root}/seeded/results.json') else {}
out.append('\n#### Table 7-C. Changes seeded by fresh sub-agents (each confirmed: builds, 149 tests pass, demonstration fails with it and passes without)\n')
out.append('| seed | file(s) | change | what it needs to show | quick check verdict (violation keys) |\n|---|---|---|---|---|')
for name in sorted(os.listdir(f'{root}/seeded')):
    d = f'{root}/seeded/{name}'
    if not os.path.isdir(d): continue
    md = json.load(open(f'{d}/meta.json'))
    r = res.get(name, {}).get('quick', {})
    verdict = []
    for chk, e in r.items():
        verdict.append(f"{chk}: **{e['status']}** " + ', '.join(f'`{k}`' for k in e.get('keys', [])[:3]))
    files = ', '.join(md.get('confirmed', {}).get('files', md.get('files', [])))
    out.append(f"| {name} | {files} | {md.get('summary','').replace('|','/')} | {md.get('trigger','').replace('|','/')[:400]} | {'; '.join(verdict) or 'not run'} |")
mres = json.load(open(f'{root}/mutants/results.json')) if os.path.exists(f'{root}/mutants/results.json') else {}
out.append('\n#### Table 7-D. Hand-written mutants (`mutants/specs.py`, run by `tools_selftest.py`)\n')
out.append('| mutant | verdict | 149 tests pass | violation keys |\n|---|---|---|---|')
for k in sorted(mres):
    e = mres[k]
    out.append(f"| {k} | **{e['status']}** | {e.get('tests_pass','')} | {', '.join('`'+x+'`' for x in e.get('keys', [])[:3])} |")
text = '\n'.join(out) + '\n'
p = f'{root}/DESIGN.md'
s = open(p).read()
b, e = '<!-- BEGIN GENERATED TABLES -->', '<!-- END GENERATED TABLES -->'
if b in s:
    s = s[:s.index(b) + len(b)] + '\n' + text + s[s.index(e):]
    open(p, 'w').write(s)
    print('tables regenerated:', len(out), 'lines')
else:
    print('markers missing')
