#!/usr/bin/env python3
"""tools_seed.py import <Cxx> <srcdir> [letters, default ab]   — confirm the seeds a sub-agent left in <srcdir> (patch.diff/demo_test.go/meta.json
                                           and patch2.diff/...), and store the confirmed ones under /verif/seeded/<Cxx>-a|b/
   tools_seed.py run [name ...] [--tier quick] — run the property's check against every stored seed (scratch worktree with the
                                           patch applied, VERIF_REPO) and record caught/missed in seeded/results.json"""
import json, os, subprocess, sys, tempfile, shutil, re
ENV = dict(os.environ, GOFLAGS='-mod=mod', GOPROXY='off', GOSUMDB='off', GOTOOLCHAIN='local')
ROOT = '/verif/seeded'
def sh(cmd, cwd=None, timeout=3600):
    try:
        p = subprocess.run(cmd, shell=True, cwd=cwd, env=ENV, capture_output=True, text=True, errors='replace', timeout=timeout)
    except subprocess.TimeoutExpired as e:
        return 124, 'TIMEOUT ' + str(e)
    return p.returncode, p.stdout + p.stderr
def worktree():
    wt = tempfile.mkdtemp(prefix='wt-seed-', dir='/tmp'); os.rmdir(wt)
    rc, out = sh(f'git -C /repo worktree add -q --detach {wt} HEAD')
    assert rc == 0, out
    return wt
def drop(wt):
    sh(f'git -C /repo worktree remove --force {wt}'); shutil.rmtree(wt, ignore_errors=True)

def confirm(prop, src, suffix, letter):
    patch = os.path.join(src, f'patch{suffix}.diff'); demo = os.path.join(src, f'demo{suffix}_test.go'); meta = os.path.join(src, f'meta{suffix}.json')
    if not (os.path.exists(patch) and os.path.exists(demo) and os.path.exists(meta)):
        print(prop, letter, 'incomplete delivery'); return
    md = json.load(open(meta))
    pkg = md.get('demo_pkg', '.').strip('/') or '.'
    cmd = md.get('demo_cmd', '')
    m = re.search(r'-run\s+(\S+)', cmd)
    run = m.group(1) if m else 'Test'
    wt = worktree()
    rep = {}
    try:
        demo_dst = os.path.join(wt, pkg, 'zz_seed_demo_test.go')
        # 1. unchanged tree + demo must pass
        shutil.copy(demo, demo_dst)
        rc, out = sh(f'go test -vet=off -count=1 -run {run} ./{pkg}', cwd=wt)
        rep['demo_passes_on_unchanged'] = rc == 0
        os.remove(demo_dst)
        # 2. apply
        rc, out = sh(f'git apply {patch}', cwd=wt)
        rep['applies'] = rc == 0
        if rc != 0:
            print(prop, letter, 'patch does not apply', out[-200:]); return
        rc, out = sh('go build ./...', cwd=wt); rep['builds'] = rc == 0
        rc, out = sh('go test -vet=off -count=1 ./...', cwd=wt); rep['suite_passes'] = rc == 0
        shutil.copy(demo, demo_dst)
        rc, out = sh(f'go test -vet=off -count=1 -run {run} ./{pkg}', cwd=wt)
        rep['demo_fails_with_change'] = rc != 0
        rep['demo_output_tail'] = out[-600:]
        _, files = sh('git diff --name-only', cwd=wt)
        rep['files'] = files.split()
    finally:
        drop(wt)
    ok = all(rep.get(k) for k in ['demo_passes_on_unchanged', 'applies', 'builds', 'suite_passes', 'demo_fails_with_change'])
    print(prop, letter, 'CONFIRMED' if ok else 'REJECTED', {k: v for k, v in rep.items() if k != 'demo_output_tail'})
    if not ok:
        return
    dst = os.path.join(ROOT, f'{prop}-{letter}')
    os.makedirs(dst, exist_ok=True)
    shutil.copy(patch, os.path.join(dst, 'patch.diff'))
    shutil.copy(demo, os.path.join(dst, 'demo_test.go'))
    md['confirmed'] = {k: v for k, v in rep.items() if k != 'demo_output_tail'}
    md['property'] = prop
    md['demo_run'] = run
    md['origin'] = 'fresh sub-agent given only the property text and a scratch worktree'
    json.dump(md, open(os.path.join(dst, 'meta.json'), 'w'), indent=1)

def run(names, tier):
    res_path = os.environ.get('SEED_RESULTS') or os.path.join(ROOT, 'results.json')
    results = json.load(open(res_path)) if os.path.exists(res_path) else {}
    # the checks run from a snapshot of /verif, so that editing the sources while a long run is
    # going cannot break (or change) the checks half-way
    snap = tempfile.mkdtemp(prefix='verif-snap-', dir='/tmp')
    sh(f'rsync -a --exclude .git --exclude replays --exclude evidence --exclude seeded --exclude bin /verif/ {snap}/')
    try:
        run_in(names, tier, res_path, results, snap)
    finally:
        shutil.rmtree(snap, ignore_errors=True)

def run_in(names, tier, res_path, results, snap):
    for name in sorted(os.listdir(ROOT)):
        d = os.path.join(ROOT, name)
        if not os.path.isdir(d) or (names and name not in names and name.split('-')[0] not in names):
            continue
        md = json.load(open(os.path.join(d, 'meta.json')))
        prop = md['property']
        checks = [prop] + md.get('also_run', [])
        wt = worktree()
        try:
            rc, out = sh(f'git apply {d}/patch.diff', cwd=wt)
            if rc != 0:
                results[name] = dict(status='patch-stale', detail=out[-200:]); print(name, 'PATCH-STALE'); continue
            entry = {}
            for chk in checks:
                rc, out = sh(f'VERIF_REPO={wt} timeout -s QUIT 2400 ./run.sh {chk} {tier}', cwd=snap)
                viol = [l for l in out.splitlines() if l.startswith('VIOLATION')]
                keys = sorted({l.split('key=')[1].split(' ')[0] for l in viol if 'key=' in l})
                summ = [l for l in out.splitlines() if l.startswith('SUMMARY')]
                status = 'caught' if viol else 'missed'
                if not viol and (not summ or 'BROKEN build failed' in out):
                    status = 'error (the check did not run)'
                if not viol and md.get('neutralised'):
                    status = 'neutralised (no longer breaks the property, see meta.json)'
                if not viol and md.get('judgement'):
                    status = 'outside the statement (see meta.json)'
                entry[chk] = dict(status=status, keys=keys[:6], summary=summ[-1] if summ else out[-200:])
                print(name, chk, tier, entry[chk]['status'].upper(), keys[:3])
            results.setdefault(name, {})[tier] = entry
        finally:
            drop(wt)
        json.dump(results, open(res_path, 'w'), indent=1, sort_keys=True)

if sys.argv[1] == 'import':
    prop, src = sys.argv[2], sys.argv[3]
    letters = sys.argv[4] if len(sys.argv) > 4 else 'ab'
    confirm(prop, src, '', letters[0])
    if len(letters) > 1: confirm(prop, src, '2', letters[1])
else:
    args = sys.argv[2:]
    tier = 'quick'
    if '--tier' in args:
        i = args.index('--tier'); tier = args[i+1]; del args[i:i+2]
    run(set(args), tier)
