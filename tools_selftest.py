#!/usr/bin/env python3
"""tools_selftest.py [Cxx ...] — applies each hand-written mutant of mutants/specs.py (for the given
properties, default all) to a scratch worktree of /repo, checks build + repository tests, runs the
property's quick check against it and reports caught/missed. Results go to mutants/results.json."""
import json, os, subprocess, sys, tempfile, shutil
sys.path.insert(0, '/verif/mutants')
from specs import M
ENV = dict(os.environ, GOFLAGS='-mod=mod', GOPROXY='off', GOSUMDB='off', GOTOOLCHAIN='local')
want = set(sys.argv[1:])
res_path = '/verif/mutants/results.json'
results = json.load(open(res_path)) if os.path.exists(res_path) else {}
def sh(cmd, cwd=None, timeout=1800):
    p = subprocess.run(cmd, shell=True, cwd=cwd, env=ENV, capture_output=True, text=True, errors='replace', timeout=timeout)
    return p.returncode, p.stdout + p.stderr
snap = tempfile.mkdtemp(prefix='verif-snap-', dir='/tmp')
sh(f'rsync -a --exclude .git --exclude replays --exclude evidence --exclude seeded --exclude bin /verif/ {snap}/')
import atexit
atexit.register(lambda: shutil.rmtree(snap, ignore_errors=True))
for mu in M:
    if want and mu['prop'] not in want and mu['name'] not in want:
        continue
    key = mu['prop'] + ':' + mu['name']
    wt = tempfile.mkdtemp(prefix='wt-self-', dir='/tmp'); os.rmdir(wt)
    rc, out = sh(f'git -C /repo worktree add -q --detach {wt} HEAD')
    try:
        path = os.path.join(wt, mu['file'])
        src = open(path).read()
        if src.count(mu['old']) != mu['count']:
            results[key] = dict(status='spec-stale', detail=f"old text occurs {src.count(mu['old'])} times")
            print(key, 'SPEC-STALE', src.count(mu['old'])); continue
        open(path, 'w').write(src.replace(mu['old'], mu['new']))
        rc, out = sh('go build ./...', cwd=wt)
        if rc != 0:
            results[key] = dict(status='does-not-compile', detail=out[-300:]); print(key, 'NO-COMPILE', out[-200:]); continue
        rc, out = sh('go test -vet=off -count=1 ./...', cwd=wt)
        tests_pass = rc == 0
        rc, out = sh(f'VERIF_REPO={wt} timeout -s QUIT 1500 ./run.sh {mu["prop"]} quick', cwd=snap)
        viol = [l for l in out.splitlines() if l.startswith('VIOLATION')]
        keys = sorted({l.split('key=')[1].split(' ')[0] for l in viol if 'key=' in l})
        status = 'caught' if viol else 'missed'
        if not viol and not tests_pass:
            status = 'not a valid mutant (the repository tests fail with it)'
        elif not viol and mu.get('note'):
            status = 'not caught; ' + mu['note']
        results[key] = dict(status=status, tests_pass=tests_pass, keys=keys[:6])
        print(key, status.upper(), 'tests_pass=%s' % tests_pass, keys[:3])
    finally:
        sh(f'git -C /repo worktree remove --force {wt}'); shutil.rmtree(wt, ignore_errors=True)
    json.dump(results, open(res_path, 'w'), indent=1, sort_keys=True)
