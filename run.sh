#!/bin/bash
# Entry point used by MANIFEST.json:  run.sh <Cxx> <quick|thorough> [--replay file] [--batch name]
#                                     run.sh build
# Rebuilds the vcheck binaries from /repo's current working tree (through the
# replace directive in go.mod, tag "verif" turns the hooks on) and runs a check.
set -u
cd "$(dirname "$0")"
export GOFLAGS=-mod=mod GOPROXY=off GOSUMDB=off GOTOOLCHAIN=local
export VERIF_ROOT="$(pwd)"
REPO="${VERIF_REPO:-/repo}"
mkdir -p bin

if [ "$REPO" != "/repo" ]; then
  # selftest against a scratch copy: use a private modfile so that go.mod stays untouched
  MODFILE="$(mktemp -d)/go.mod"
  sed "s#=> /repo#=> $REPO#" go.mod > "$MODFILE"
  cp go.sum "$(dirname "$MODFILE")/go.sum"
  MODFLAG="-modfile=$MODFILE"
  BIN="$(dirname "$MODFILE")"
else
  MODFLAG=""
  BIN="bin"
fi

build() {
  go build $MODFLAG -tags verif -o "$BIN/vcheck" ./cmd/vcheck || { echo "BROKEN build failed"; exit 2; }
}
build_race() {
  go build $MODFLAG -race -tags verif -o "$BIN/vcheck-race" ./cmd/vcheck || { echo "BROKEN race build failed"; exit 2; }
}

case "${1:-}" in
  build)
    build; build_race; exit 0;;
  "")
    echo "usage: run.sh <Cxx> <quick|thorough> | build"; exit 3;;
esac

ID="$1"; TIER="${2:-quick}"; shift; shift || true
build
case "$ID" in
  C03|C04|C08|C10) build_race;;
  *) if [ "$TIER" = thorough ]; then build_race; fi;;
esac
"$BIN/vcheck" "$ID" "$TIER" "$@"
rc=$?
if [ "$REPO" != "/repo" ]; then rm -rf "$(dirname "$MODFILE")"; fi
exit $rc
