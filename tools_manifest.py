#!/usr/bin/env python3
# Regenerates MANIFEST.json from the table below (kept next to the checks so the two stay in step).
import json, subprocess
CHECKS = {
 "C01": dict(level="exploration", ref="DESIGN.md §3 C01",
   text="Real Vaxis on an in-memory console; after every Render/Refresh/resize the independent reference terminal's grid, cursor and pen are compared with the application's own shadow record (canonical layout, capability fallback); poison marks reliance on terminal-specific behaviour; flush epilogue invariants at every write boundary; bounded-exhaustive (prev cell,next cell) pair matrix. Held on the sessions explored, not a proof.",
   note="trusts refterm (own xterm model with self-check table), hand-stated widths in widthtab; wide cluster in the last column and wrong explicit widths are not generated",
   technique="runtime monitoring: differential reference-terminal oracle over random frame histories + exhaustive cell-pair matrix"),
}
NOT_YET = "check not built yet in this round (runtime-monitoring check planned in DESIGN.md)"
props=[json.loads(l) for l in open('/verif/properties.jsonl')]
commits = subprocess.run(["git","-C","/repo","log","--format=%h %s"],capture_output=True,text=True).stdout.splitlines()
hook_commits=[c.split()[0] for c in commits if c.split(' ',1)[1].startswith('verif:')]
man={
 "version":1,
 "setup_cmd":"./run.sh build",
 "hooks":{"guard":"verif","enable":"go build -tags verif (run.sh builds cmd/vcheck against /repo through the replace directive in go.mod)","baseline_off_cmd":"cd /repo && GOFLAGS=-mod=mod GOPROXY=off GOSUMDB=off GOTOOLCHAIN=local go test -vet=off -count=1 ./...","source_commits":hook_commits,"add_only":True},
 "engines":[{"name":"vcheck","path":"cmd/vcheck","serves_properties":sorted(CHECKS),"kind_free_text":"driver/worker runtime-monitoring harness: the real vaxis code is run against an independent reference terminal (internal/refterm) on an in-memory console; oracles over observed grids, events and histories; crash and wedge attribution through an mmap'd journal; race detector builds for the concurrent checks"}],
 "checks":[],
 "not_applicable":[],
 "notes":"see DESIGN.md; known_findings.json lists fixed and open findings"
}
for p in props:
    i=p['id']
    if i in CHECKS:
        c=CHECKS[i]
        man["checks"].append({
          "property_id":i,
          "quick_cmd":f"./run.sh {i} quick",
          "thorough_cmd":f"./run.sh {i} thorough",
          "evidence_file":f"/verif/evidence/{i}.json",
          "replay_cmd_template":f"./run.sh {i} quick --replay {{path}}",
          "engine":"vcheck",
          "level_claimed":{"category":c["level"],"text":c["text"],"design_ref":c["ref"]},
          "level_note":c["note"],
          "technique":c["technique"],
        })
    else:
        man["not_applicable"].append({"property_id":i,"reason":NOT_YET})
json.dump(man,open('/verif/MANIFEST.json','w'),indent=1,ensure_ascii=False)
print("claimed:",sorted(CHECKS))
