import sys
for p in sys.argv[1:]:
    s=open(p,encoding='utf-8').read()
    out=[]
    for c in s:
        o=ord(c)
        if o<128: out.append(c)
        elif o<0x10000: out.append('\\u%04x'%o)
        else: out.append('\\U%08x'%o)
    open(p,'w').write(''.join(out))
