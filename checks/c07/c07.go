// Package c07: only advertised terminal features are used; fallbacks are
// faithful (DESIGN.md §3 C07).
package c07

import (
	"encoding/json"
	"fmt"
	"strings"
	"time"

	"git.sr.ht/~rockorager/vaxis"

	"verif/internal/gen"
	"verif/internal/harness"
	"verif/internal/memcon"
	"verif/internal/refterm"
	"verif/internal/vxh"
	"verif/internal/widthtab"
)

type check struct{}

func init() { harness.Register(check{}) }

func (check) ID() string    { return "C07" }
func (check) Level() string { return "exploration" }
func (check) Rule() string {
	return "capability subsets (quick: all subsets of the 10 flags that gate output + random subsets of all 17; thorough: all 2^17), each with a full start-up, a frame containing every style class (default/0-7/8-15/16-255/RGB for fg, bg and underline colour, all attribute bits, all underline styles, hyperlinks) and every width class, a cursor, a suspend/resume and a shutdown: the reference terminal's vocabulary log must contain no unknown sequence and no capability-gated sequence whose capability was not advertised (probes in the start-up block excepted), Can* accessors and TerminalID must equal the advertised set, RenderedWidth must equal the curated width table for the matching method, and the rendered frame must equal the shadow under the fallback rules; colour fallback: quick 4096 boundary-rich + 20000 random direct colours, thorough all 2^24, each must map to a palette entry attaining the minimum weighted distance; sessions with Options.EventQueueSize 1 (random capability masks, half of them with synchronized output and RGB; quick 48, thorough 800): the replies pile up behind the one-slot queue during start-up and the accessors (explicit width excepted) must still equal the advertised set. A case is one session or one colour; distinct = capability mask / colour value"
}
func (check) Assumptions() []string {
	return []string{
		"refterm's classification table (DESIGN.md Appendix A) is the vocabulary: baseline xterm, capability-gated, probe, unknown",
		"integer distance 900dR^2+3481dG^2+121dB^2 (the library's 0.30/0.59/0.11 weights squared); ties: any minimiser accepted",
		"explicit-width detection that misses its 50ms deadline on a loaded machine is inconclusive",
	}
}

type spec struct {
	Kind string `json:"kind"`
	Part int    `json:"part"`
	Of   int    `json:"of"`
	N    int    `json:"n"`
}

func (check) Plan(tier string, seed int64) []harness.Batch {
	var bs []harness.Batch
	for p := 0; p < 16; p++ {
		s, _ := json.Marshal(spec{Kind: "caps", Part: p, Of: 16})
		bs = append(bs, harness.Batch{Name: fmt.Sprintf("caps-%d", p), Seed: seed*101 + int64(p), Spec: s, TimeoutS: 3000, CaseTimeoutS: 150})
		s, _ = json.Marshal(spec{Kind: "colours", Part: p, Of: 16})
		bs = append(bs, harness.Batch{Name: fmt.Sprintf("colours-%d", p), Seed: seed*103 + int64(p), Spec: s, TimeoutS: 3000, CaseTimeoutS: 300})
	}
	for p := 0; p < 4; p++ {
		s, _ := json.Marshal(spec{Kind: "smallqueue", Part: p, Of: 4})
		bs = append(bs, harness.Batch{Name: fmt.Sprintf("smallqueue-%d", p), Seed: seed*107 + int64(p), Spec: s, TimeoutS: 3000, CaseTimeoutS: 150})
	}
	s, _ := json.Marshal(spec{Kind: "env"})
	bs = append(bs, harness.Batch{Name: "env-colorterm", Seed: seed, Spec: s, TimeoutS: 600, Env: []string{"COLORTERM=truecolor"}})
	return bs
}

// the flags that change what vaxis writes
var outputFlags = []int{0, 1, 2, 3, 4, 6, 8, 9, 10, 16} // sync unicode colorscheme inband kittykb sixel explicitwidth rgb smulx osc176

type capCase struct {
	Mask  uint32   `json:"caps_mask"`
	Names []string `json:"caps"`
	Kitty bool     `json:"xtversion_kitty,omitempty"`
	// RPM4: private modes the terminal does not support are reported as
	// "permanently reset" (DECRPM status 4) instead of "not recognised" (0)
	RPM4 bool `json:"unsupported_modes_report_4,omitempty"`
	// SixelVia: "da1" = sixel support is announced by attribute 4 of the
	// device attributes only, "xtsmgraphics" = by the graphics reply only
	SixelVia string `json:"sixel_announced_by,omitempty"`
	// EarlyCPR: the write of a cursor position request returns 5 ms after
	// the terminal's report has been queued (the report is dispatched while
	// the requester is still inside its write)
	EarlyCPR bool `json:"cursor_report_dispatched_before_the_request_write_returns,omitempty"`
	attempt  int
}

func names(mask uint32) []string {
	var l []string
	for i, n := range refterm.CapNames {
		if mask&(1<<uint(i)) != 0 {
			l = append(l, n)
		}
	}
	return l
}

func frameCells() []vxh.AppCell {
	cols := []refterm.Color{{}, {K: refterm.ColIndexed, V: 5}, {K: refterm.ColIndexed, V: 11}, {K: refterm.ColIndexed, V: 123}, {K: refterm.ColRGB, V: 0x4080c0}}
	var out []vxh.AppCell
	i := 0
	for _, fg := range cols {
		for _, bg := range cols {
			st := vxh.AppStyle{Fg: fg, Bg: bg, Ul: cols[i%5], UlStyle: uint8(i % 6), Attr: uint8(1 << uint(i%7))}
			if i%4 == 0 {
				st.Link, st.LinkParams = "https://example.org/"+fmt.Sprint(i%3), "id=1"
			}
			out = append(out, vxh.AppCell{G: string(rune('a' + i%26)), Style: st})
			i++
		}
	}
	for _, e := range widthtab.Table {
		out = append(out, vxh.AppCell{G: e.G, Style: vxh.AppStyle{Fg: cols[i%5]}})
		i++
	}
	out = append(out, vxh.AppCell{G: "", Style: vxh.AppStyle{Attr: 0x7f}})
	return out
}

func runCaps(w *harness.W, cc capCase) {
	cj, _ := json.Marshal(cc)
	w.Begin(string(cj))
	defer w.End()
	caps := refterm.CapsFromMask(cc.Mask)
	if cc.Kitty && caps.XTVersion != "" {
		caps.XTVersion = "kitty(0.31.0)"
	}
	const cols, rows = 40, 8
	sess, err := vxh.Start(cols, rows, caps, vaxis.Options{}, func(t *refterm.Terminal, c *memcon.Console) {
		t.R, t.C = 3, 1 // prior cursor in column 2: exposes dependence on it
		t.AppID = "prior-app"
		t.UserCursorShape = 3
		if cc.RPM4 {
			t.UnsupportedModeReport = 4
		}
		t.SixelVia = cc.SixelVia
		if cc.EarlyCPR {
			c.PostWriteDelay = func(p []byte) time.Duration {
				if strings.Contains(string(p), "\x1b[6n") {
					return 5 * time.Millisecond
				}
				return 0
			}
		}
	})
	if err != nil {
		w.Violation("new-failed", err.Error(), cc, err.Error(), "nil")
		return
	}
	if _, ok := sess.Sync(); !ok {
		w.Inconclusive("startup-sync-timeout")
		return
	}
	vx := sess.Vx
	w.Case(fmt.Sprintf("caps|%d|%v|%v|%s", cc.Mask, cc.Kitty, cc.RPM4, cc.SixelVia))
	w.Count("sessions", 1)
	// Can* accessors
	type pair struct {
		name      string
		got, want bool
	}
	for _, p := range []pair{
		{"rgb", vx.CanRGB(), caps.RGB},
		{"kittygraphics", vx.CanKittyGraphics(), caps.KittyGfx},
		{"sixel", vx.CanSixel(), caps.Sixel},
		{"displaygraphics", vx.CanDisplayGraphics(), caps.Sixel || caps.KittyGfx},
		{"osc4", vx.CanReportColor(), caps.OSC4},
		{"osc10", vx.CanReportForegroundColor(), caps.OSC1011},
		{"osc11", vx.CanReportBackgroundColor(), caps.OSC1011},
		{"osc176", vx.CanSetAppID(), caps.OSC176},
		{"unicode", vx.CanUnicodeCore(), caps.Unicode},
		{"explicitwidth", vx.CanExplicitWidth(), caps.ExplicitWidth},
	} {
		if p.got != p.want {
			if p.name == "explicitwidth" && !p.got {
				sess.Close()
				if cc.EarlyCPR {
					// the report was there before the probe started to wait:
					// only a machine stalled for 50 ms explains a miss
					if cc.attempt < 2 {
						cc.attempt++
						w.End()
						runCaps(w, cc)
						return
					}
					w.Violation("accessor:explicitwidth:report-dispatched-during-the-request-write", "the terminal supports explicit-width text and answered the probe's cursor position request while the request was still being written; the probe gave up three times in a row", cc, "CanExplicitWidth() = false", "true")
					return
				}
				w.Inconclusive("explicit-width-probe-deadline-passed")
				return
			}
			w.Violation("accessor:"+p.name, fmt.Sprintf("Can* accessor for %s reports %v, the terminal advertised %v", p.name, p.got, p.want), cc, fmt.Sprint(p.got), fmt.Sprint(p.want))
		}
	}
	if caps.XTVersion != "" && vx.TerminalID() != caps.XTVersion {
		w.Violation("accessor:terminalid", "TerminalID differs from the XTVERSION reply", cc, vx.TerminalID(), caps.XTVersion)
	}
	// width method
	method := widthtab.Wcwidth
	switch {
	case caps.Unicode || caps.ExplicitWidth:
		method = widthtab.Unicode
	case strings.HasPrefix(caps.XTVersion, "kitty"):
		method = widthtab.NoZWJ
	}
	for _, e := range append(append([]widthtab.Entry(nil), widthtab.Table...), widthtab.Odd...) {
		want, _ := widthtab.Lookup(e.G, method)
		if got := vx.RenderedWidth(e.G); got != want {
			w.Violation(fmt.Sprintf("renderedwidth:method%d", method), fmt.Sprintf("RenderedWidth(%q) (%s) = %d, the width table says %d for method %d", e.G, e.Name, got, want, method), cc, fmt.Sprint(got), fmt.Sprint(want))
			break
		}
		w.Count("widths_checked", 1)
		// the styled-string entry point measures with the same method
		if !strings.ContainsAny(e.G, "\x1b") {
			if got := vx.NewStyledString(e.G, vaxis.Style{}).Len(); got != want {
				w.Violation(fmt.Sprintf("styledstring-width:method%d", method), fmt.Sprintf("NewStyledString(%q) (%s) has width %d, RenderedWidth and the width table say %d for method %d", e.G, e.Name, got, want, method), cc, fmt.Sprint(got), fmt.Sprint(want))
				break
			}
			w.Count("styled_string_widths_checked", 1)
		}
	}
	// frame with every style and width class
	layout := method
	if method == widthtab.NoZWJ {
		layout = widthtab.Wcwidth // the curated NoZWJ widths equal wcwidth except skin tone; terminal side is wcwidth
	}
	shadow := vxh.NewShadow(cols, rows)
	win := vx.Window()
	col, row := 0, 0
	for _, c := range frameCells() {
		wd, _ := vxh.EffWidth(c, layout)
		if method == widthtab.NoZWJ {
			if g, ok := widthtab.Lookup(c.G, widthtab.NoZWJ); ok && g != wd {
				continue // kitty-quirk widths differ from a wcwidth terminal: not laid out here
			}
		}
		if col+wd > cols-1 {
			col = 0
			row++
		}
		win.SetCell(col, row, c.ToVaxis())
		shadow.Set(col, row, c)
		col += wd
	}
	vx.ShowCursor(2, 2, vaxis.CursorBeam)
	vx.SetMouseShape(vaxis.MouseShapeClickable)
	vx.Render()
	var mm []vxh.Mismatch
	sess.Con.With(func() { mm = vxh.Compare(shadow, sess.Term, layout, caps.RGB, caps.StyledUnderlines(), 3) })
	for _, m := range mm {
		key := "fallback:" + m.Kind
		if m.Kind == "style" {
			key += ":" + strings.SplitN(m.Detail, " ", 2)[0]
		}
		w.Violation(key, "rendered frame differs from the application's cells under the fallback rules: "+m.String(), cc, m.String(), "faithful fallback")
		break
	}
	if vx.CanSetAppID() {
		vx.SetAppID("c07-app") // an application asks before using it
	}
	vx.Suspend()
	vx.Resume()
	sess.Sync()
	vx.Render()
	sess.Close()
	// vocabulary log
	t := sess.Term
	for _, e := range t.Log {
		switch e.Class {
		case refterm.Unknown:
			w.Violation("vocabulary:unknown:"+seqKind(e.Seq), fmt.Sprintf("sequence outside the known vocabulary written: %s", e.Seq), cc, e.Seq, "baseline or advertised vocabulary only")
		case refterm.Gated:
			if !e.HaveCap && !(e.InStartup && e.Cap == "inband") && !(e.Cap == "osc176" && false) {
				w.Violation("vocabulary:gated-without-capability:"+e.Cap, fmt.Sprintf("%s written although the terminal did not advertise %s (start-up block: %v)", e.Seq, e.Cap, e.InStartup), cc, e.Seq, "used only when advertised")
			}
		}
	}
	for k, n := range t.LogCounts {
		w.Count("vocab_"+k, int64(n))
	}
	if len(cc.Names) > 5 && len(cc.Names) < 9 {
		w.Sample(cc)
	}
}

// runSmallQueue: Options.EventQueueSize 1. The replies to the first block of
// start-up queries pile up behind the one-slot queue while New is still
// writing the second block (nobody drains until the last query is out), so
// every capability event meets a full queue. What the replies established must
// still be what the accessors report (C07-q: a capability event posted without
// blocking is dropped). Explicit-width text is left out of the masks: its probe
// waits 50 ms for a cursor report that the stalled input goroutine cannot
// deliver, which is the queue size the application chose and not judged here.
func runSmallQueue(w *harness.W, cc capCase) {
	cj, _ := json.Marshal(cc)
	w.Begin(string(cj))
	defer w.End()
	caps := refterm.CapsFromMask(cc.Mask)
	sess, err := vxh.Start(40, 8, caps, vaxis.Options{EventQueueSize: 1}, func(t *refterm.Terminal, c *memcon.Console) {
		if cc.RPM4 {
			t.UnsupportedModeReport = 4
		}
	})
	if err != nil {
		w.Violation("new-failed", err.Error(), cc, err.Error(), "nil")
		return
	}
	if _, ok := sess.Sync(); !ok {
		w.Inconclusive("startup-sync-timeout")
		return
	}
	vx := sess.Vx
	w.Case(fmt.Sprintf("smallqueue|%d|%v", cc.Mask, cc.RPM4))
	w.Count("sessions_event_queue_of_one", 1)
	for _, p := range []struct {
		name      string
		got, want bool
	}{
		{"rgb", vx.CanRGB(), caps.RGB},
		{"kittygraphics", vx.CanKittyGraphics(), caps.KittyGfx},
		{"sixel", vx.CanSixel(), caps.Sixel},
		{"osc4", vx.CanReportColor(), caps.OSC4},
		{"osc10", vx.CanReportForegroundColor(), caps.OSC1011},
		{"osc11", vx.CanReportBackgroundColor(), caps.OSC1011},
		{"osc176", vx.CanSetAppID(), caps.OSC176},
		{"unicode", vx.CanUnicodeCore(), caps.Unicode},
	} {
		if p.got != p.want {
			w.Violation("accessor:"+p.name+":event-queue-of-one", fmt.Sprintf("with Options.EventQueueSize 1 the Can* accessor for %s reports %v, the terminal's replies established %v", p.name, p.got, p.want), cc, fmt.Sprint(p.got), fmt.Sprint(p.want))
		}
	}
	if caps.XTVersion != "" && vx.TerminalID() != caps.XTVersion {
		w.Violation("accessor:terminalid:event-queue-of-one", "TerminalID differs from the XTVERSION reply", cc, vx.TerminalID(), caps.XTVersion)
	}
	// a direct colour is written as one only if RGB was established
	vx.Window().SetCell(0, 0, vaxis.Cell{Character: vaxis.Character{Grapheme: "x", Width: 1}, Style: vaxis.Style{Foreground: vaxis.RGBColor(1, 2, 3)}})
	vx.Render()
	sess.Close()
	if cc.Mask&0x1f == 0x1f {
		w.Sample(cc)
	}
}

func seqKind(s string) string {
	if len(s) > 12 {
		s = s[:12]
	}
	return strings.Map(func(r rune) rune {
		if r >= '0' && r <= '9' {
			return -1
		}
		return r
	}, s)
}

// runColours renders direct colours on a terminal without RGB and checks every
// palette index sent against the integer nearest-entry oracle.
func runColours(w *harness.W, s spec, r gen.R, tier string) {
	var list []uint32
	if tier == "thorough" {
		// all 2^24, this part's share: 16 parts x 16 frames of 256x256
		for v := uint32(s.Part); v < 1<<24; v += uint32(s.Of) {
			list = append(list, v)
		}
	} else {
		comps := []uint32{0, 1, 7, 8, 9, 0x2f, 0x5e, 0x5f, 0x60, 0x73, 0x87, 0x9b, 0xaf, 0xd7, 0xfe, 0xff}
		k := 0
		for _, a := range comps {
			for _, b := range comps {
				for _, c := range comps {
					if k%s.Of == s.Part {
						list = append(list, a<<16|b<<8|c)
					}
					k++
				}
			}
		}
		for i := 0; i < 20000/s.Of; i++ {
			list = append(list, uint32(r.Intn(1<<24)))
		}
	}
	const cols, rows = 256, 256
	sess, err := vxh.Start(cols, rows, refterm.Caps{}, vaxis.Options{}, nil)
	if err != nil {
		w.Inconclusive("start-failed")
		return
	}
	if _, ok := sess.Sync(); !ok {
		w.Inconclusive("startup-sync-timeout")
		return
	}
	defer sess.Close()
	win := sess.Vx.Window()
	for off := 0; off < len(list); off += cols * rows {
		end := off + cols*rows
		if end > len(list) {
			end = len(list)
		}
		w.Begin(fmt.Sprintf("colour frame %d..%d", off, end))
		for i := off; i < end; i++ {
			c := vaxis.RGBColor(uint8(list[i]>>16), uint8(list[i]>>8), uint8(list[i]))
			st := vaxis.Style{Foreground: c}
			if i%2 == 1 {
				st = vaxis.Style{Background: c}
			}
			win.SetCell((i-off)%cols, (i-off)/cols, vaxis.Cell{Character: vaxis.Character{Grapheme: "x", Width: 1}, Style: st})
		}
		sess.Vx.Render()
		w.End()
		bad := 0
		sess.Con.With(func() {
			t := sess.Term
			for i := off; i < end; i++ {
				cell := t.Cell((i-off)/cols, (i-off)%cols)
				got := cell.Style.Fg
				if i%2 == 1 {
					got = cell.Style.Bg
				}
				if !vxh.ColorOK(refterm.Color{K: refterm.ColRGB, V: list[i]}, got, false) {
					if bad < 3 {
						w.Violation("fallback:nearest-palette", fmt.Sprintf("direct colour #%06x was sent as %s; nearest palette entries are %v", list[i], got, vxh.NearestSet(list[i])), map[string]any{"rgb": fmt.Sprintf("#%06x", list[i])}, got.String(), fmt.Sprint(vxh.NearestSet(list[i])))
					}
					bad++
				}
			}
		})
		for i := off; i < end; i++ {
			w.CaseHash(uint64(list[i])<<1 | uint64(i%2))
		}
		w.Count("colours_checked", int64(end-off))
	}
	if tier == "thorough" {
		w.Count("exhaustive_spaces", 1)
	}
	w.Sample(map[string]any{"first_colours": fmt.Sprintf("%06x %06x %06x", list[0], list[1], list[2]), "count": len(list)})
}

func (c check) Run(w *harness.W, b harness.Batch) {
	var s spec
	json.Unmarshal(b.Spec, &s)
	r := gen.New(b.Seed)
	switch s.Kind {
	case "caps":
		var masks []uint32
		if w.Tier == "thorough" {
			for m := uint32(0); m < 1<<17; m++ {
				if int(m)%s.Of == s.Part {
					masks = append(masks, m)
				}
			}
		} else {
			for sub := 0; sub < 1<<len(outputFlags); sub++ {
				if sub%s.Of != s.Part {
					continue
				}
				var m uint32
				for i, f := range outputFlags {
					if sub&(1<<uint(i)) != 0 {
						m |= 1 << uint(f)
					}
				}
				masks = append(masks, m)
			}
			for i := 0; i < 12; i++ {
				masks = append(masks, uint32(r.Int63())&0x1ffff)
			}
		}
		for i, m := range masks {
			runCaps(w, capCase{Mask: m, Names: names(m), Kitty: i%5 == 4, RPM4: i%3 == 1, SixelVia: []string{"", "da1", "xtsmgraphics", ""}[(i/2)%4], EarlyCPR: i%4 == 2})
		}
	case "smallqueue":
		n := 12
		if w.Tier == "thorough" {
			n = 200
		}
		for i := 0; i < n; i++ {
			m := uint32(r.Int63()) & 0x1ffff
			if i%2 == 0 {
				m |= 1<<9 | 1<<0 // rgb (XTGETTCAP, asked late) behind the synchronized-output report
			}
			m &^= 1 << 8
			runSmallQueue(w, capCase{Mask: m, Names: names(m), RPM4: i%3 == 1})
		}
	case "colours":
		runColours(w, s, r, w.Tier)
	case "env":
		// COLORTERM=truecolor is the user advertising RGB
		sess, err := vxh.Start(20, 4, refterm.Caps{}, vaxis.Options{}, nil)
		if err != nil {
			return
		}
		sess.Sync()
		w.Case("env|COLORTERM=truecolor")
		w.Count("sessions", 1)
		if !sess.Vx.CanRGB() {
			w.Violation("accessor:rgb:colorterm", "COLORTERM=truecolor did not enable RGB", map[string]string{"env": "COLORTERM=truecolor"}, "false", "true")
		}
		sess.Close()
	}
}

func (check) Finalize(tier string, m *harness.Merged) string {
	if m.Counts["sessions"] == 0 || m.Counts["sessions_event_queue_of_one"] == 0 || m.Counts["colours_checked"] == 0 || m.Counts["widths_checked"] == 0 {
		return "a sub-workload observed nothing"
	}
	return ""
}
