// Package c06: the embedded terminal shows what a VT/xterm would show for the
// core vocabulary (DESIGN.md \u00a73 C06, Appendix E).
package c06

import (
	"encoding/json"
	"fmt"
	"strings"

	"git.sr.ht/~rockorager/vaxis"
	"git.sr.ht/~rockorager/vaxis/ansi"
	"git.sr.ht/~rockorager/vaxis/widgets/term"

	"verif/internal/gen"
	"verif/internal/harness"
	"verif/internal/refterm"
	"verif/internal/vxh"
)

type check struct{}

func init() { harness.Register(check{}) }

func (check) ID() string    { return "C06" }
func (check) Level() string { return "exploration" }
func (check) Rule() string {
	return "bounded-exhaustive: all programs of length <= 3 (quick) / <= 4 (thorough, thinned) over a 60-op alphabet (each core function with parameters omitted, 0, 1, 2, size, size+1) on 2x2, 3x2 and 4x3 screens that start filled with a non-default pen; plus random programs of 50-500 ops on sizes up to 80x24. The same bytes go to the emulator (through the hook) and to the reference VT; cursor and every cell's visible content are compared after every sequence. While the reference is in the deferred-wrap state only print, CR and absolute positioning are generated. A case is one program; distinct = hash of (size, ops); non-trivial = at least two ops executed"
}
func (check) Assumptions() []string {
	return []string{
		"refterm implements DEC STD 070 / xterm semantics of exactly the listed functions (Appendix E); points on which DEC and xterm differ are either-accepted: background of cells shifted in by ICH/DCH/IL/DL/SU/SD and of the alternate screen on entry, cursor column after IL/DL, the orphaned half of an overwritten wide glyph",
		"for blank cells only what is visible is compared (background, reverse/strike/underline)",
		"SGR 21 (double underline in xterm, not in DEC) is not generated",
	}
}

type spec struct {
	Kind string `json:"kind"`
	Part int    `json:"part"`
	Of   int    `json:"of"`
	Len  int    `json:"len"`
	N    int    `json:"n"`
	Thin int    `json:"thin"`
}

func (check) Plan(tier string, seed int64) []harness.Batch {
	var bs []harness.Batch
	parts := 16
	L, thin, nrand := 3, 1, 60
	if tier == "thorough" {
		L, thin, nrand = 4, 7, 6000
		parts = 64
	}
	for p := 0; p < parts; p++ {
		s, _ := json.Marshal(spec{Kind: "exhaustive", Part: p, Of: parts, Len: L, Thin: thin})
		bs = append(bs, harness.Batch{Name: fmt.Sprintf("exhaustive-%d", p), Seed: seed, Spec: s, TimeoutS: 3000, CaseTimeoutS: 30})
	}
	for p := 0; p < 16; p++ {
		s, _ := json.Marshal(spec{Kind: "random", N: nrand})
		bs = append(bs, harness.Batch{Name: fmt.Sprintf("random-%d", p), Seed: seed*7919 + int64(p), Spec: s, TimeoutS: 3000, CaseTimeoutS: 60})
	}
	return bs
}

// Op is one operation: name (for keys) and bytes; Abs marks ops allowed in the
// deferred-wrap state.
type Op struct {
	Name  string
	Bytes string
	Abs   bool
}

func pvals(size int) []string {
	return []string{"", "0", "1", "2", fmt.Sprint(size), fmt.Sprint(size + 1)}
}

// alphabet builds the op alphabet for a screen. full=false thins parameters.
func alphabet(cols, rows int, full bool) []Op {
	var ops []Op
	add := func(name, b string, abs bool) { ops = append(ops, Op{name, b, abs}) }
	add("print", "a", true)
	add("print-wide", "\u4f60", true)
	add("CR", "\r", true)
	add("LF", "\n", false)
	one := func(name, final string, size int, abs bool, vals []string) {
		for _, v := range vals {
			add(name, "\x1b["+v+final, abs)
		}
	}
	few := func(size int) []string {
		if full {
			return pvals(size)
		}
		return []string{"", "2", fmt.Sprint(size + 1)}
	}
	one("CUU", "A", rows, false, few(rows))
	one("CUD", "B", rows, false, few(rows))
	one("CUF", "C", cols, false, few(cols))
	one("CUB", "D", cols, false, few(cols))
	one("CNL", "E", rows, false, []string{"", "2", fmt.Sprint(rows + 1)})
	one("CPL", "F", rows, false, []string{"", "2", fmt.Sprint(rows + 1)})
	one("CHA", "G", cols, true, few(cols))
	one("VPA", "d", rows, true, few(rows))
	one("HPA", "`", cols, true, []string{"2", fmt.Sprint(cols), fmt.Sprint(cols + 1)})
	one("HPR", "a", cols, false, []string{"", "2", fmt.Sprint(cols + 1)})
	one("VPR", "e", rows, false, []string{"", "2", fmt.Sprint(rows + 1)})
	for _, rc := range []string{"", "1;1", "2;2", "0;0", fmt.Sprintf("%d;%d", rows, cols), fmt.Sprintf("%d;%d", rows+1, cols+1), "2", ";2"} {
		add("CUP", "\x1b["+rc+"H", true)
	}
	add("HVP", "\x1b[2;1f", true)
	one("ED", "J", 0, false, []string{"", "1", "2"})
	one("EL", "K", 0, false, []string{"", "1", "2"})
	one("ECH", "X", cols, false, few(cols))
	one("ICH", "@", cols, false, few(cols))
	one("DCH", "P", cols, false, few(cols))
	one("IL", "L", rows, false, few(rows))
	one("DL", "M", rows, false, few(rows))
	one("SU", "S", rows, false, few(rows))
	one("SD", "T", rows, false, few(rows))
	for _, tb := range []string{"", "1;2", "2;" + fmt.Sprint(rows), "0;0", "2;2", "2"} {
		add("DECSTBM", "\x1b["+tb+"r", false)
	}
	add("IND", "\x1bD", false)
	add("RI", "\x1bM", false)
	add("NEL", "\x1bE", false)
	add("DECSC", "\x1b7", false)
	add("DECRC", "\x1b8", false)
	add("1049h", "\x1b[?1049h", false)
	add("1049l", "\x1b[?1049l", false)
	for _, s := range []string{"", "7", "41", "1;4", "38;5;1", "0"} {
		add("SGR", "\x1b["+s+"m", true)
	}
	return ops
}

var sgrPool = []string{"0", "1", "2", "3", "4", "5", "7", "8", "9", "22", "23", "24", "25", "27", "28", "29", "31", "37", "39", "42", "47", "49", "91", "97", "102", "107",
	"38;5;200", "48;5;17", "38;2;10;20;30", "48;2;250;128;0", "38:5:3", "48:2:1:2:3", "4:0", "4:1", "4:3", "4:5", "58:5:9", "58:2:9:8:7", "59", "1;31;42", ""}

func randomOps(r gen.R, cols, rows, n int) []Op {
	base := alphabet(cols, rows, true)
	var out []Op
	for i := 0; i < n; i++ {
		switch r.Intn(10) {
		case 0, 1, 2, 3:
			g := []string{"a", "b", "x", "~", "\u00e9", "\u4f60", "\u597d", "\ud55c", "\uff21"}[r.Intn(9)]
			name := "print"
			if len(g) >= 3 {
				name = "print-wide"
			}
			out = append(out, Op{name, g, true})
		case 4:
			out = append(out, Op{"SGR", "\x1b[" + sgrPool[r.Intn(len(sgrPool))] + "m", true})
		case 5:
			out = append(out, Op{"CUP", fmt.Sprintf("\x1b[%d;%dH", r.Intn(rows+2), r.Intn(cols+2)), true})
		default:
			out = append(out, base[r.Intn(len(base))])
		}
	}
	return out
}

type progCase struct {
	Cols, Rows int
	Ops        []string `json:"ops"`
	Names      []string `json:"names"`
}

func toRefColor(c vaxis.Color) refterm.Color {
	p := c.Params()
	switch len(p) {
	case 1:
		return refterm.Color{K: refterm.ColIndexed, V: uint32(p[0])}
	case 3:
		return refterm.Color{K: refterm.ColRGB, V: uint32(p[0])<<16 | uint32(p[1])<<8 | uint32(p[2])}
	}
	return refterm.Color{}
}

func toRefStyle(s vaxis.Style) refterm.Style {
	return refterm.Style{Fg: toRefColor(s.Foreground), Bg: toRefColor(s.Background), Ul: toRefColor(s.UnderlineColor),
		Attr: vxh.FromAttr(s.Attribute), UlStyle: uint8(s.UnderlineStyle), Link: s.Hyperlink, LinkParams: s.HyperlinkParams}
}

const visAttr = refterm.AReverse | refterm.AStrike

// cellDiff compares the visible content of an emulator cell with the
// reference cell; "" when equal.
func cellDiff(e term.VerifCell, r refterm.Cell) string {
	if r.Poison != "" || r.Cont {
		return "" // terminal-specific / second half of a wide glyph
	}
	es := toRefStyle(e.Style)
	eBlank := e.Grapheme == "" || e.Grapheme == " "
	rBlank := r.G == "" || r.G == " "
	if eBlank != rBlank {
		return fmt.Sprintf("content emulator %q reference %q", e.Grapheme, r.G)
	}
	bgOK := es.Bg == r.Style.Bg || (r.EitherBg && es.Bg.K == refterm.ColDefault)
	if eBlank {
		if e.Width > 1 {
			// the widget's Draw steps by cell width: a blank that claims two
			// columns hides whatever the next column holds
			return fmt.Sprintf("blank-width emulator %d: a blank occupies one column", e.Width)
		}
		if !bgOK {
			return fmt.Sprintf("blank-background emulator %s reference %s", es.Bg, r.Style.Bg)
		}
		ea, ra := es.Attr&visAttr, r.Style.Attr&visAttr
		if ea != ra || es.UlStyle != r.Style.UlStyle {
			return fmt.Sprintf("blank-attributes emulator attr=%07b ul=%d reference attr=%07b ul=%d", es.Attr, es.UlStyle, r.Style.Attr, r.Style.UlStyle)
		}
		if (ea != 0 || es.UlStyle != 0) && es.Fg != r.Style.Fg {
			return fmt.Sprintf("blank-foreground emulator %s reference %s", es.Fg, r.Style.Fg)
		}
		return ""
	}
	if e.Grapheme != r.G {
		return fmt.Sprintf("content emulator %q reference %q", e.Grapheme, r.G)
	}
	if e.Width != r.W {
		return fmt.Sprintf("width emulator %d reference %d", e.Width, r.W)
	}
	switch {
	case es.Fg != r.Style.Fg:
		return fmt.Sprintf("style-fg emulator %s reference %s", es.Fg, r.Style.Fg)
	case !bgOK:
		return fmt.Sprintf("style-bg emulator %s reference %s", es.Bg, r.Style.Bg)
	case es.Attr != r.Style.Attr:
		return fmt.Sprintf("style-attr emulator %07b reference %07b", es.Attr, r.Style.Attr)
	case es.UlStyle != r.Style.UlStyle:
		return fmt.Sprintf("style-ulstyle emulator %d reference %d", es.UlStyle, r.Style.UlStyle)
	case es.Ul != r.Style.Ul:
		return fmt.Sprintf("style-ulcolor emulator %s reference %s", es.Ul, r.Style.Ul)
	}
	return ""
}

func prelude(cols, rows int) string {
	var sb strings.Builder
	sb.WriteString("\x1b[1;33;44m") // non-default pen: bold yellow on blue
	for r := 0; r < rows; r++ {
		fmt.Fprintf(&sb, "\x1b[%d;1H", r+1)
		for c := 0; c < cols; c++ {
			sb.WriteByte(byte('A' + (r*cols+c)%26))
		}
	}
	sb.WriteString("\x1b[1;1H")
	return sb.String()
}

// run executes one program on both terminals and compares after every op.
// It returns the number of ops executed.
func run(w *harness.W, cols, rows int, ops []Op, sample bool) int {
	pc := progCase{Cols: cols, Rows: rows}
	for _, o := range ops {
		pc.Ops = append(pc.Ops, o.Bytes)
		pc.Names = append(pc.Names, o.Name)
	}
	cj, _ := json.Marshal(pc)
	w.Begin(string(cj))
	defer w.End()
	ref := refterm.New(cols, rows, refterm.Caps{})
	pre := prelude(cols, rows)
	ref.Write([]byte(pre))
	valid := len(ops)
	m, err := term.VerifNew(cols, rows)
	if err != nil {
		w.Inconclusive("verifnew-failed")
		return 0
	}
	defer term.VerifFree(m)
	term.VerifFeed(m, []byte(pre), nil)
	var prog strings.Builder
	for _, o := range ops[:valid] {
		prog.WriteString(o.Bytes)
	}
	i := 0
	failed := false
	pruned := false
	executed := 0
	val, stack, panicked := harness.Recover(func() {
		term.VerifFeed(m, []byte(prog.String()), func(seq ansi.Sequence) {
			if failed || pruned || i >= valid {
				return
			}
			o := ops[i]
			// unconstrained zones: in the deferred-wrap state only print, CR
			// and absolute positioning are defined; entering the alternate
			// screen while already there is xterm-specific
			if (ref.PW && !o.Abs) || (o.Name == "1049h" && ref.AltActive) {
				pruned = true
				return
			}
			i++
			executed++
			ref.Write([]byte(o.Bytes))
			snap := term.VerifSnapshot(m, true)
			w.Count("sequences_compared", 1)
			w.Distinct("ops", o.Name)
			// cursor
			er, ec, epw := snap.CursorRow, snap.CursorCol, false
			if snap.LastCol {
				ec, epw = snap.CursorCol-1, true
			}
			if ref.ILDLColumnEither {
				ref.ILDLColumnEither = false
				if ec == 0 && er == ref.R {
					ref.C = 0
				}
			}
			if er != ref.R || ec != ref.C || epw != ref.PW {
				failed = true
				w.Violation("cursor@"+o.Name, fmt.Sprintf("after op %d (%s %q): emulator cursor (%d,%d,pending=%v), reference (%d,%d,pending=%v)", i-1, o.Name, o.Bytes, er, ec, epw, ref.R, ref.C, ref.PW), pc, fmt.Sprintf("(%d,%d,%v)", er, ec, epw), fmt.Sprintf("(%d,%d,%v)", ref.R, ref.C, ref.PW))
				return
			}
			if snap.Rows != rows || snap.Cols != cols {
				return // C05's subject
			}
			for r := 0; r < rows && !failed; r++ {
				for c := 0; c < cols; c++ {
					if d := cellDiff(snap.Cells[r][c], ref.Cell(r, c)); d != "" {
						failed = true
						w.Violation("grid:"+strings.SplitN(d, " ", 2)[0]+"@"+o.Name, fmt.Sprintf("after op %d (%s %q): cell (%d,%d) %s", i-1, o.Name, o.Bytes, r, c, d), pc, d, "emulator cell equals reference cell")
						break
					}
				}
			}
		})
	})
	if panicked {
		// crashes are C05's subject; here they only end the comparison
		w.Count("panics_seen", 1)
		w.Distinct("panic_sites", harness.PanicKey(val, stack))
	}
	if pruned {
		w.Count("programs_pruned_at_unconstrained_zone", 1)
	}
	if executed >= 2 {
		w.Case(string(cj))
	} else {
		w.Eval(1)
	}
	if sample && !failed {
		w.Sample(pc)
	}
	return executed
}

var screens = [][2]int{{2, 2}, {3, 2}, {4, 3}}

func (c check) Run(w *harness.W, b harness.Batch) {
	var s spec
	json.Unmarshal(b.Spec, &s)
	r := gen.New(b.Seed)
	switch s.Kind {
	case "exhaustive":
		k := 0
		for _, sz := range screens {
			cols, rows := sz[0], sz[1]
			ops := alphabet(cols, rows, s.Len <= 3)
			n := len(ops)
			for l := 1; l <= s.Len; l++ {
				cnt := 1
				for i := 0; i < l; i++ {
					cnt *= n
				}
				idx := make([]int, l)
				for q := 0; q < cnt; q++ {
					k++
					take := k%s.Of == s.Part
					if l == s.Len && s.Thin > 1 && (k/s.Of)%s.Thin != 0 {
						take = false
					}
					if take {
						prog := make([]Op, l)
						for i, x := range idx {
							prog[i] = ops[x]
						}
						run(w, cols, rows, prog, q%5003 == 0)
						w.Count("programs", 1)
					}
					for j := l - 1; j >= 0; j-- {
						idx[j]++
						if idx[j] < n {
							break
						}
						idx[j] = 0
					}
				}
			}
		}
		if s.Thin <= 1 {
			w.Count("exhaustive_spaces", 1)
		}
	case "random":
		for i := 0; i < s.N; i++ {
			cols, rows := r.Range(2, 12), r.Range(2, 8)
			if r.Intn(5) == 0 {
				cols, rows = 80, 24
			}
			n := r.Range(50, 500)
			run(w, cols, rows, randomOps(r, cols, rows, n), i%10 == 0)
			w.Count("programs", 1)
		}
	}
}

func (check) Finalize(tier string, m *harness.Merged) string {
	if m.Counts["sequences_compared"] < 1000 {
		return "fewer than 1000 sequences compared"
	}
	return ""
}

func (c check) Replay(w *harness.W, raw json.RawMessage) {
	var pc progCase
	if err := json.Unmarshal(raw, &pc); err != nil {
		fmt.Println(err)
		return
	}
	var ops []Op
	abs := map[string]bool{"print": true, "print-wide": true, "CR": true, "CHA": true, "VPA": true, "HPA": true, "CUP": true, "HVP": true, "SGR": true}
	for i, b := range pc.Ops {
		ops = append(ops, Op{pc.Names[i], b, abs[pc.Names[i]]})
		fmt.Printf("op %d %s %q\n", i, pc.Names[i], b)
	}
	run(w, pc.Cols, pc.Rows, ops, false)
}
