// Package c19: lists and pagers: selection always valid and visible, content
// complete (DESIGN.md \u00a73 C19).
package c19

import (
	"encoding/json"
	"fmt"
	"strings"

	"git.sr.ht/~rockorager/vaxis"
	"git.sr.ht/~rockorager/vaxis/vxfw"
	vlist "git.sr.ht/~rockorager/vaxis/vxfw/list"
	wlist "git.sr.ht/~rockorager/vaxis/widgets/list"
	"git.sr.ht/~rockorager/vaxis/widgets/pager"
	"git.sr.ht/~rockorager/vaxis/widgets/scrollbar"

	"verif/internal/gen"
	"verif/internal/harness"
	"verif/internal/refterm"
	"verif/internal/vxh"
)

type check struct{}

func init() { harness.Register(check{}) }

func (check) ID() string    { return "C19" }
func (check) Level() string { return "exploration" }
func (check) Rule() string {
	return "three history monitors. vxfw list.Dynamic: item counts 0..12 with heights 0..4, gaps 0..2, gutter on/off, viewports 0..12 x 0..9; histories of 60 operations (next, prev, j/k/arrow keys through CaptureEvent, set-cursor to valid indexes, wheel up/down, pending scroll, item replacement, draw) with a draw after every operation: no panic, cursor < count, drawn children are consecutive indexes laid out contiguously (row[i+1] = row[i] + height[i] + gap), and after a selection change the selected item is inside the viewport (fully when it fits). widgets/list.List: histories over Down/Up/Home/End/PageDown/PageUp/SetItems/Draw at heights 0..8 through a real Vaxis window on the reference terminal: index in range, rows show consecutive items, exactly the selected item is reversed and visible. widgets/pager: every text up to length 6 over {a, wide, newline} at widths 1..6 plus random longer styled texts: rows read back from the reference terminal equal an ideal wrap (every character once, in order, no row wider than the window, last unterminated line included); scroll histories keep 0 <= offset <= lines-height and show rows[offset:offset+height]. distinct = hash of the history"
}
func (check) Assumptions() []string {
	return []string{
		"SetCursor is called with valid and with out-of-range indexes; after an out-of-range request the cursor must still name an existing item",
		"for an empty simple list no index is valid: only absence of panics is required",
		"pager: a blank row after a row that exactly fills the width is tolerated (wrap and newline both break the line); wide graphemes are used only at widths >= 2",
		"the dynamic list learns about replaced items at the next Draw; the cursor is re-validated by the harness with SetCursor as an application would",
	}
}

type spec struct {
	Kind string `json:"kind"`
	N    int    `json:"n"`
	Part int    `json:"part"`
	Of   int    `json:"of"`
}

func (check) Plan(tier string, seed int64) []harness.Batch {
	var bs []harness.Batch
	n := 2500
	if tier == "thorough" {
		n = 8000
	}
	for p := 0; p < 6; p++ {
		s, _ := json.Marshal(spec{Kind: "dynamic", N: n})
		bs = append(bs, harness.Batch{Name: fmt.Sprintf("dynamic-%d", p), Seed: seed*73 + int64(p), Spec: s, TimeoutS: 3000, CaseTimeoutS: 60})
	}
	for p := 0; p < 4; p++ {
		s, _ := json.Marshal(spec{Kind: "simple", N: n / 3})
		bs = append(bs, harness.Batch{Name: fmt.Sprintf("simple-%d", p), Seed: seed*79 + int64(p), Spec: s, TimeoutS: 3000, CaseTimeoutS: 60})
		s, _ = json.Marshal(spec{Kind: "pager-exhaustive", Part: p, Of: 4})
		bs = append(bs, harness.Batch{Name: fmt.Sprintf("pager-exhaustive-%d", p), Seed: seed, Spec: s, TimeoutS: 3000, CaseTimeoutS: 60})
		s, _ = json.Marshal(spec{Kind: "pager-random", N: n / 3})
		bs = append(bs, harness.Batch{Name: fmt.Sprintf("pager-random-%d", p), Seed: seed*83 + int64(p), Spec: s, TimeoutS: 3000, CaseTimeoutS: 60})
	}
	return bs
}

// ---------------------------------------------------------------------------
// vxfw list.Dynamic

type dop struct {
	Op string `json:"op"`
	A  int    `json:"a,omitempty"`
	B  []int  `json:"b,omitempty"`
	// More: the next operation arrives before the next draw
	More bool `json:"no_draw_before_the_next_op,omitempty"`
}

type dcase struct {
	Heights []int `json:"heights"`
	Gap     int   `json:"gap"`
	Gutter  bool  `json:"gutter"`
	W       int   `json:"w"`
	H       int   `json:"h"`
	Ops     []dop `json:"ops"`
}

type item struct {
	idx int
	h   int
}

func (it *item) HandleEvent(vaxis.Event, vxfw.EventPhase) (vxfw.Command, error) { return nil, nil }
func (it *item) Draw(ctx vxfw.DrawContext) (vxfw.Surface, error) {
	w := ctx.Max.Width
	if w > 40 {
		w = 40
	}
	return vxfw.NewSurface(w, uint16(it.h), it), nil
}

func childIndex(s vxfw.Surface) (int, bool) {
	if it, ok := s.Widget.(*item); ok {
		return it.idx, true
	}
	return 0, false
}

func runDynamic(w *harness.W, c dcase, sample bool) {
	cj, _ := json.Marshal(c)
	w.Begin(string(cj))
	defer w.End()
	w.Case(string(cj))
	heights := append([]int{}, c.Heights...)
	items := map[int]*item{}
	d := &vlist.Dynamic{Gap: c.Gap, DrawCursor: c.Gutter}
	d.Builder = func(i uint, cursor uint) vxfw.Widget {
		if int(i) >= len(heights) {
			return nil
		}
		it := items[int(i)]
		if it == nil || it.h != heights[i] {
			it = &item{int(i), heights[i]}
			items[int(i)] = it
		}
		return it
	}
	W, H := c.W, c.H
	lastCursor := uint(0)
	fail := func(key, what string, i int) {
		w.Violation("dynamic:"+key, fmt.Sprintf("op %d (%s): %s", i, c.Ops[i].Op, what), c, what, "")
	}
	for i, o := range c.Ops {
		setCalled := false
		val, stack, panicked := harness.Recover(func() {
			switch o.Op {
			case "next":
				d.NextItem()
			case "prev":
				d.PrevItem()
			case "key-j":
				d.CaptureEvent(vaxis.Key{Keycode: 'j', Text: "j"})
			case "key-up":
				d.CaptureEvent(vaxis.Key{Keycode: vaxis.KeyUp})
			case "set-cursor":
				if len(heights) > 0 {
					d.SetCursor(uint(o.A % len(heights)))
					setCalled = true
				}
			case "set-cursor-any":
				d.SetCursor(uint(o.A))
				setCalled = o.A < len(heights)
			case "wheel-down":
				d.HandleEvent(vaxis.Mouse{Button: vaxis.MouseWheelDown}, vxfw.TargetPhase)
			case "wheel-up":
				d.HandleEvent(vaxis.Mouse{Button: vaxis.MouseWheelUp}, vxfw.TargetPhase)
			case "pending":
				d.SetPendingScroll(o.A)
			case "set-items":
				heights = append([]int{}, o.B...)
				// the application re-validates its cursor after replacing items
				if len(heights) > 0 && int(d.Cursor()) >= len(heights) {
					d.SetCursor(uint(len(heights) - 1))
					setCalled = true
				} else if len(heights) == 0 {
					d.SetCursor(0)
				}
			case "resize":
				W, H = o.A%13, (o.A/13)%10
			}
		})
		if panicked {
			w.ViolationStack("panic:"+harness.PanicKey(val, stack), fmt.Sprintf("list.Dynamic panicked at op %d (%s): %s", i, o.Op, val), c, val, "no panic", stack)
			return
		}
		// a selection change: the cursor moved, or the application set it
		selChanged := d.Cursor() != lastCursor || setCalled
		lastCursor = d.Cursor()
		if len(heights) > 0 && int(d.Cursor()) >= len(heights) {
			fail("cursor-out-of-range", fmt.Sprintf("cursor %d with %d items", d.Cursor(), len(heights)), i)
			return
		}
		if o.More && i+1 < len(c.Ops) {
			// several operations in one frame; the selection rule is judged
			// when the selection change is the last of them
			w.Count("operations_without_a_draw_in_between", 1)
			continue
		}
		var s vxfw.Surface
		val, stack, panicked = harness.Recover(func() {
			s, _ = d.Draw(vxfw.DrawContext{Max: vxfw.Size{Width: uint16(W), Height: uint16(H)}, Characters: vaxis.Characters})
		})
		if panicked {
			w.ViolationStack("panic:"+harness.PanicKey(val, stack), fmt.Sprintf("list.Dynamic.Draw panicked after op %d (%s) at %dx%d: %s", i, o.Op, W, H, val), c, val, "no panic", stack)
			return
		}
		w.Count("dynamic_draws", 1)
		// children: (index,row,height)
		type ch struct{ idx, row, h int }
		var kids []ch
		for _, k := range s.Children {
			surf := k.Surface
			idx, ok := childIndex(surf)
			if !ok {
				fail("child-unknown", "a child surface does not belong to an item", i)
				return
			}
			kids = append(kids, ch{idx, k.Origin.Row, int(surf.Size.Height)})
		}
		for k := 1; k < len(kids); k++ {
			if kids[k].idx != kids[k-1].idx+1 {
				fail("order", fmt.Sprintf("children are items %d then %d", kids[k-1].idx, kids[k].idx), i)
				return
			}
			if want := kids[k-1].row + kids[k-1].h + c.Gap; kids[k].row != want {
				kind := "gap-between-items"
				if kids[k].row < want {
					kind = "overlap"
				}
				fail(kind, fmt.Sprintf("item %d (row %d, height %d) is followed by item %d at row %d, expected row %d (gap %d)", kids[k-1].idx, kids[k-1].row, kids[k-1].h, kids[k].idx, kids[k].row, want, c.Gap), i)
				return
			}
		}
		if selChanged && len(heights) > 0 && H > 0 {
			cur := int(d.Cursor())
			found := false
			for _, k := range kids {
				if k.idx != cur {
					continue
				}
				found = true
				if k.h == 0 {
					break
				}
				if k.h <= H && (k.row < 0 || k.row+k.h > H) {
					fail("selected-not-visible", fmt.Sprintf("after a selection change item %d (height %d) is drawn at row %d of a viewport %d high", cur, k.h, k.row, H), i)
					return
				}
				if k.h > H && (k.row >= H || k.row+k.h <= 0) {
					fail("selected-not-visible", fmt.Sprintf("after a selection change item %d (height %d) is drawn at row %d, outside a viewport %d high", cur, k.h, k.row, H), i)
					return
				}
			}
			if !found {
				fail("selected-not-drawn", fmt.Sprintf("after a selection change item %d is not among the drawn children (%d children)", cur, len(kids)), i)
				return
			}
			w.Count("selection_visibility_checks", 1)
		}
		w.Max("children_drawn", int64(len(kids)))
	}
	if sample {
		w.Sample(c)
	}
}

func genDynamic(r gen.R) dcase {
	c := dcase{Gap: r.Intn(3), Gutter: r.Intn(2) == 0, W: r.Intn(13), H: r.Intn(10)}
	if r.Intn(4) > 0 {
		c.W, c.H = 3+r.Intn(10), 1+r.Intn(9)
	}
	mk := func() []int {
		n := r.Intn(13)
		minH := 1
		if r.Intn(4) == 0 {
			minH = 0
		}
		hs := make([]int, n)
		for i := range hs {
			hs[i] = minH + r.Intn(5-minH)
		}
		return hs
	}
	c.Heights = mk()
	for i := 0; i < 60; i++ {
		if n := len(c.Ops); n > 0 && r.Intn(4) == 0 {
			c.Ops[n-1].More = true
		}
		switch k := r.Intn(20); {
		case k < 5:
			c.Ops = append(c.Ops, dop{Op: "next"})
		case k < 8:
			c.Ops = append(c.Ops, dop{Op: "prev"})
		case k < 9:
			c.Ops = append(c.Ops, dop{Op: "key-j"})
		case k < 10:
			c.Ops = append(c.Ops, dop{Op: "key-up"})
		case k < 11:
			c.Ops = append(c.Ops, dop{Op: "set-cursor", A: r.Intn(100)})
		case k < 12:
			c.Ops = append(c.Ops, dop{Op: "set-cursor-any", A: r.Intn(16)})
		case k < 14:
			c.Ops = append(c.Ops, dop{Op: "wheel-down"})
		case k < 16:
			c.Ops = append(c.Ops, dop{Op: "wheel-up"})
		case k < 17:
			c.Ops = append(c.Ops, dop{Op: "pending", A: r.Intn(21) - 10})
		case k < 18:
			c.Ops = append(c.Ops, dop{Op: "set-items", B: mk()})
		case k < 19:
			c.Ops = append(c.Ops, dop{Op: "resize", A: r.Intn(130)})
		default:
			c.Ops = append(c.Ops, dop{Op: "draw"})
		}
	}
	return c
}

// ---------------------------------------------------------------------------
// widgets/list.List

type scase struct {
	N   int   `json:"n"`
	Ops []dop `json:"ops"`
}

func rowsOf(sess *vxh.Session, x, y, w, h int) (rows []string, rev []bool) {
	sess.Con.With(func() {
		for r := y; r < y+h && r < sess.Term.Rows; r++ {
			var sb strings.Builder
			isRev := false
			for c := x; c < x+w && c < sess.Term.Cols; c++ {
				cell := sess.Term.Cell(r, c)
				if cell.Cont {
					continue
				}
				if cell.G == "" {
					sb.WriteString(" ")
				} else {
					sb.WriteString(cell.G)
				}
				if cell.Style.Attr&refterm.AReverse != 0 && cell.G != "" && cell.G != " " {
					isRev = true
				}
			}
			rows = append(rows, strings.TrimRight(sb.String(), " "))
			rev = append(rev, isRev)
		}
	})
	return
}

func mkItems(n, gen int) []string {
	it := make([]string, n)
	for i := range it {
		it[i] = fmt.Sprintf("g%d-item-%d", gen, i)
	}
	return it
}

func runSimple(w *harness.W, sess *vxh.Session, c scase, sample bool) {
	cj, _ := json.Marshal(c)
	w.Begin(string(cj))
	defer w.End()
	w.Case(string(cj))
	generation := 0
	items := mkItems(c.N, generation)
	l := wlist.New(items)
	h := 5
	fail := func(key, what string, i int) {
		w.Violation("simple:"+key, fmt.Sprintf("op %d (%s): %s", i, c.Ops[i].Op, what), c, what, "")
	}
	for i, o := range c.Ops {
		win := sess.Vx.Window().New(2, 1, 20, h)
		val, stack, panicked := harness.Recover(func() {
			switch o.Op {
			case "down":
				l.Down()
			case "up":
				l.Up()
			case "home":
				l.Home()
			case "end":
				l.End()
			case "page-down":
				l.PageDown(win)
			case "page-up":
				l.PageUp(win)
			case "set-items":
				generation++
				items = mkItems(o.A, generation)
				l.SetItems(items)
			case "height":
				h = o.A
				win = sess.Vx.Window().New(2, 1, 20, h)
			}
			sess.Vx.Window().Clear()
			l.Draw(win)
		})
		if panicked {
			w.ViolationStack("panic:"+harness.PanicKey(val, stack), fmt.Sprintf("widgets/list panicked at op %d (%s) with %d items, height %d: %s", i, o.Op, len(items), h, val), c, val, "no panic", stack)
			return
		}
		w.Count("simple_draws", 1)
		if len(items) == 0 {
			// no item can be selected: the index rests at 0 (a negative
			// index is what made Draw panic before)
			if idx := l.Index(); idx != 0 {
				fail("index-out-of-range", fmt.Sprintf("index %d with no items", idx), i)
				return
			}
			continue
		}
		idx := l.Index()
		if idx < 0 || idx >= len(items) {
			fail("index-out-of-range", fmt.Sprintf("index %d with %d items", idx, len(items)), i)
			return
		}
		if h == 0 {
			continue
		}
		sess.Vx.Render()
		rows, rev := rowsOf(sess, 2, 1, 20, h)
		first := -1
		nrev := 0
		for r, txt := range rows {
			if txt == "" {
				// blank rows only after the last item
				for _, later := range rows[r:] {
					if later != "" {
						fail("blank-row-inside", fmt.Sprintf("row %d is blank but a later row shows %q", r, later), i)
						return
					}
				}
				break
			}
			var g, k int
			if n, _ := fmt.Sscanf(txt, "g%d-item-%d", &g, &k); n != 2 || g != generation {
				fail("stale-or-foreign-row", fmt.Sprintf("row %d shows %q (current items are generation %d)", r, txt, generation), i)
				return
			}
			if first == -1 {
				first = k - r
			}
			if k != first+r {
				fail("order", fmt.Sprintf("row %d shows item %d, expected item %d", r, k, first+r), i)
				return
			}
			if rev[r] {
				nrev++
				if k != idx {
					fail("wrong-item-highlighted", fmt.Sprintf("row %d (item %d) is highlighted, the index is %d", r, k, idx), i)
					return
				}
			}
		}
		if nrev != 1 {
			fail("selected-not-visible", fmt.Sprintf("%d highlighted rows in a viewport of %d rows (index %d of %d items, first visible item %d)", nrev, h, idx, len(items), first), i)
			return
		}
		w.Count("simple_frames_compared", 1)
	}
	if sample {
		w.Sample(c)
	}
}

func genSimple(r gen.R) scase {
	c := scase{N: r.Intn(14)}
	ops := []string{"down", "down", "down", "up", "up", "home", "end", "page-down", "page-up", "set-items", "height", "draw"}
	for i := 0; i < 50; i++ {
		o := dop{Op: ops[r.Intn(len(ops))]}
		switch o.Op {
		case "set-items":
			o.A = r.Intn(14)
		case "height":
			o.A = r.Intn(9)
		}
		c.Ops = append(c.Ops, o)
	}
	return c
}

// ---------------------------------------------------------------------------
// pager

type pcase struct {
	Segs   []string `json:"segs"`
	W      int      `json:"w"`
	H      int      `json:"h"`
	Scroll []int    `json:"scroll,omitempty"` // +1 down, -1 up
	W2     int      `json:"w2,omitempty"`     // width of a final draw after the scrolling (0 = none)
}

// idealRows wraps the text at width w: a logical line becomes chunks whose
// width does not exceed w; an empty logical line is one empty row; a final
// newline does not open another row.
func idealRows(text string, w int) []string {
	var rows []string
	// CR LF is one line terminator (and one grapheme cluster)
	lines := strings.Split(strings.ReplaceAll(text, "\r\n", "\n"), "\n")
	if len(lines) > 0 && lines[len(lines)-1] == "" {
		lines = lines[:len(lines)-1]
	}
	for _, ln := range lines {
		if ln == "" {
			rows = append(rows, "")
			continue
		}
		cur, cw := "", 0
		for _, ch := range vaxis.Characters(ln) {
			if cw+ch.Width > w && cur != "" {
				rows = append(rows, cur)
				cur, cw = "", 0
			}
			cur += ch.Grapheme
			cw += ch.Width
		}
		rows = append(rows, cur)
	}
	return rows
}

func rowWidth(s string) int {
	n := 0
	for _, ch := range vaxis.Characters(s) {
		n += ch.Width
	}
	return n
}

// sameRows compares drawn rows with the ideal ones; a blank drawn row right
// after a row that fills the width exactly may be skipped.
func sameRows(got, want []string, w int) bool {
	var rec func(i, j int, credit bool) bool
	rec = func(i, j int, credit bool) bool {
		if i == len(got) && j == len(want) {
			return true
		}
		if i < len(got) && j < len(want) && got[i] == want[j] {
			if rec(i+1, j+1, rowWidth(got[i]) == w) {
				return true
			}
		}
		if i < len(got) && got[i] == "" && credit {
			return rec(i+1, j, false)
		}
		return false
	}
	return rec(0, 0, false)
}

func trimBlankTail(rows []string) []string {
	for len(rows) > 0 && rows[len(rows)-1] == "" {
		rows = rows[:len(rows)-1]
	}
	return rows
}

func runPager(w *harness.W, sess *vxh.Session, c pcase, sample bool) {
	cj, _ := json.Marshal(c)
	w.Begin(string(cj))
	defer w.End()
	w.Case(string(cj))
	m := &pager.Model{}
	text := ""
	for i, s := range c.Segs {
		st := vaxis.Style{}
		if i%2 == 1 {
			st.Attribute = vaxis.AttrBold
		}
		m.Segments = append(m.Segments, vaxis.Segment{Text: s, Style: st})
		text += s
	}
	width := c.W
	cur := m
	draw := func(h int) ([]string, bool) {
		win := sess.Vx.Window().New(1, 0, width, h)
		val, stack, panicked := harness.Recover(func() {
			sess.Vx.Window().Clear()
			cur.Draw(win)
		})
		if panicked {
			w.ViolationStack("panic:"+harness.PanicKey(val, stack), fmt.Sprintf("pager.Draw panicked at %dx%d with text %q: %s", c.W, h, text, val), c, val, "no panic", stack)
			return nil, false
		}
		sess.Vx.Render()
		rows, _ := rowsOf(sess, 1, 0, width, h)
		return rows, true
	}
	// everything at once
	full, ok := draw(sess.Term.Rows)
	if !ok {
		return
	}
	w.Count("pager_draws", 1)
	want := idealRows(text, c.W)
	tallest := len(want)
	for _, r := range want {
		if rowWidth(r) == c.W {
			tallest++
		}
	}
	if tallest > sess.Term.Rows {
		w.Count("pager_text_too_tall_skipped", 1)
		return
	}
	// trailing empty rows of the ideal cannot be told from fill
	gotT, wantT := trimBlankTail(full), trimBlankTail(want)
	if !sameRows(gotT, wantT, c.W) {
		kind := "pager:rows-differ"
		joined := strings.Join(gotT, "")
		flat := strings.ReplaceAll(strings.ReplaceAll(text, "\r\n", ""), "\n", "")
		switch {
		case len(joined) < len(flat) && strings.HasPrefix(flat, joined):
			kind = "pager:last-line-missing"
		case len(joined) < len(flat):
			kind = "pager:characters-lost"
		}
		w.Violation(kind, fmt.Sprintf("text %q at width %d is shown as %q, an ideal wrap gives %q", text, c.W, gotT, wantT), c, fmt.Sprintf("%q", gotT), fmt.Sprintf("%q", wantT))
		return
	}
	w.Count("pager_layouts_compared", 1)
	// scrolling in a small viewport
	if len(c.Scroll) > 0 && c.H > 0 {
		all := full
		nlines := len(trimBlankTail(all))
		for i, s := range c.Scroll {
			if s > 0 {
				m.ScrollDown()
			} else {
				m.ScrollUp()
			}
			rows, ok := draw(c.H)
			if !ok {
				return
			}
			w.Count("pager_scroll_steps", 1)
			// upper bound on laid-out lines: the ideal rows plus one blank row per exactly full row
			maxLines := len(want)
			for _, r := range want {
				if rowWidth(r) == c.W {
					maxLines++
				}
			}
			if m.Offset < 0 || (m.Offset > 0 && m.Offset+c.H > maxLines) {
				w.Violation("pager:offset-not-clamped", fmt.Sprintf("after scroll step %d the offset is %d with %d lines in a viewport of %d", i, m.Offset, nlines, c.H), c, fmt.Sprint(m.Offset), "0 <= offset <= lines - height")
				return
			}
			for r := 0; r < c.H && r < len(rows); r++ {
				exp := ""
				if m.Offset+r < len(all) {
					exp = all[m.Offset+r]
				}
				if rows[r] != exp {
					w.Violation("pager:scrolled-rows", fmt.Sprintf("offset %d: row %d shows %q, line %d of the layout is %q", m.Offset, r, rows[r], m.Offset+r, exp), c, rows[r], exp)
					return
				}
			}
		}
		// the window changes its width while the pager is scrolled
		if c.W2 > 0 && c.W2 != c.W {
			width = c.W2
			fresh := &pager.Model{Segments: m.Segments}
			cur = fresh
			allNew, ok := draw(sess.Term.Rows)
			if !ok {
				return
			}
			cur = m
			rows, ok := draw(c.H)
			if !ok {
				return
			}
			want2 := idealRows(text, c.W2)
			maxLines := len(want2)
			for _, r := range want2 {
				if rowWidth(r) == c.W2 {
					maxLines++
				}
			}
			w.Count("pager_width_changes_while_scrolled", 1)
			if maxLines <= sess.Term.Rows {
				if m.Offset < 0 || (m.Offset > 0 && m.Offset+c.H > maxLines) {
					w.Violation("pager:offset-not-clamped:after-width-change", fmt.Sprintf("scrolled to offset %d at width %d, then drawn at width %d: offset %d with at most %d lines in a viewport of %d", m.Offset, c.W, c.W2, m.Offset, maxLines, c.H), c, fmt.Sprint(m.Offset), "0 <= offset <= lines - height")
					return
				}
				for r := 0; r < c.H && r < len(rows); r++ {
					exp := ""
					if m.Offset+r < len(allNew) {
						exp = allNew[m.Offset+r]
					}
					if rows[r] != exp {
						w.Violation("pager:scrolled-rows:after-width-change", fmt.Sprintf("width %d -> %d, offset %d: row %d shows %q, line %d of the layout is %q", c.W, c.W2, m.Offset, r, rows[r], m.Offset+r, exp), c, rows[r], exp)
						return
					}
				}
			}
		}
	}
	if sample {
		w.Sample(c)
	}
}

func (c check) Run(w *harness.W, b harness.Batch) {
	var s spec
	json.Unmarshal(b.Spec, &s)
	r := gen.New(b.Seed)
	switch s.Kind {
	case "dynamic":
		for i := 0; i < s.N; i++ {
			runDynamic(w, genDynamic(r), i == 0)
		}
		// scrollbar: arbitrary values must not panic
		for i := 0; i < 200; i++ {
			sb := scrollbar.Model{TotalHeight: r.Intn(40) - 5, ViewHeight: r.Intn(40) - 5, Top: r.Intn(50) - 10}
			val, stack, panicked := harness.Recover(func() { sb.Draw(vaxis.Window{Width: 1, Height: r.Intn(12)}) })
			if panicked && !strings.Contains(stack, "screenNext") && !strings.Contains(fmt.Sprint(val), "nil pointer") {
				w.ViolationStack("panic:"+harness.PanicKey(val, stack), fmt.Sprintf("scrollbar panicked: %s", val), sb, val, "no panic", stack)
			}
		}
	case "simple", "pager-exhaustive", "pager-random":
		sess, err := vxh.Start(40, 30, refterm.Caps{Unicode: true}, vaxis.Options{}, nil)
		if err != nil {
			w.Inconclusive("start-failed")
			return
		}
		if _, ok := sess.Sync(); !ok {
			w.Inconclusive("startup-sync-timeout")
			return
		}
		defer sess.Close()
		switch s.Kind {
		case "simple":
			for i := 0; i < s.N; i++ {
				runSimple(w, sess, genSimple(r), i == 0)
			}
		case "pager-exhaustive":
			alpha := []string{"a", "\u4f60", "\n", "\r\n"}
			k := 0
			for l := 0; l <= 6; l++ {
				cnt := 1
				for i := 0; i < l; i++ {
					cnt *= len(alpha)
				}
				for q := 0; q < cnt; q++ {
					var sb strings.Builder
					x := q
					wide := false
					for i := 0; i < l; i++ {
						sb.WriteString(alpha[x%len(alpha)])
						wide = wide || x%len(alpha) == 1
						x /= len(alpha)
					}
					for width := 1; width <= 6; width++ {
						if wide && width < 2 {
							continue
						}
						k++
						if k%s.Of != s.Part {
							continue
						}
						runPager(w, sess, pcase{Segs: []string{sb.String()}, W: width}, k%1999 == 0)
					}
				}
			}
		case "pager-random":
			alpha := []string{"a", "b", "c", "d", "\u4f60", "\u597d", "\n", "\n", "e", "f", "\r\n"}
			for i := 0; i < s.N; i++ {
				pc := pcase{W: 2 + r.Intn(12), H: 1 + r.Intn(6)}
				for sgi := 0; sgi < 1+r.Intn(3); sgi++ {
					var sb strings.Builder
					for n := r.Intn(40); n > 0; n-- {
						sb.WriteString(alpha[r.Intn(len(alpha))])
					}
					pc.Segs = append(pc.Segs, sb.String())
				}
				for n := r.Intn(30); n > 0; n-- {
					pc.Scroll = append(pc.Scroll, []int{1, 1, -1}[r.Intn(3)])
				}
				if r.Intn(2) == 0 {
					pc.W2 = 2 + r.Intn(20)
				}
				runPager(w, sess, pc, i == 0)
			}
		}
	}
}

func (c check) Replay(w *harness.W, raw json.RawMessage) {
	var probe map[string]json.RawMessage
	json.Unmarshal(raw, &probe)
	if j, ok := probe["journal"]; ok {
		var s string
		json.Unmarshal(j, &s)
		raw = json.RawMessage(s)
		probe = nil
		json.Unmarshal(raw, &probe)
	}
	if probe["heights"] != nil {
		var dc dcase
		json.Unmarshal(raw, &dc)
		runDynamic(w, dc, false)
		return
	}
	sess, err := vxh.Start(40, 30, refterm.Caps{Unicode: true}, vaxis.Options{}, nil)
	if err != nil {
		fmt.Println("start failed", err)
		return
	}
	sess.Sync()
	defer sess.Close()
	if probe["segs"] != nil {
		var pc pcase
		json.Unmarshal(raw, &pc)
		runPager(w, sess, pc, false)
		return
	}
	var sc scase
	json.Unmarshal(raw, &sc)
	runSimple(w, sess, sc, false)
}

func (check) Finalize(tier string, m *harness.Merged) string {
	for _, k := range []string{"dynamic_draws", "selection_visibility_checks", "simple_frames_compared", "pager_layouts_compared", "pager_scroll_steps"} {
		if m.Counts[k] == 0 {
			return "monitor observed nothing: " + k
		}
	}
	return ""
}
