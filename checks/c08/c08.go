// Package c08: parser lifecycle (clean termination at every offset, retained
// sequences never modified) and Escape key timing (DESIGN.md \u00a73 C08).
package c08

import (
	"encoding/hex"
	"encoding/json"
	"errors"
	"fmt"
	"io"
	"reflect"
	"strings"
	"sync"
	"time"

	"git.sr.ht/~rockorager/vaxis/ansi"
	"git.sr.ht/~rockorager/vaxis/verifhook"

	"verif/checks/c02"
	"verif/internal/gen"
	"verif/internal/harness"
	"verif/internal/parserun"
	"verif/internal/refparse"
)

type check struct{}

func init() { harness.Register(check{}) }

func (check) ID() string    { return "C08" }
func (check) Level() string { return "fault_enumeration" }
func (check) Rule() string {
	return "fault enumeration: for every string of a corpus reaching every parser state, end of input (io.EOF) or a read error is injected at every byte offset under several chunkings: items must equal the reference on the prefix, then exactly one EOF, then closure; retention runs keep every delivered sequence (never/late Finish, slow consumer) and compare deep copies at the end; timing runs put 150ms+ of silence after a lone ESC (exactly one Escape, next byte from ground) or deliver ESC and more bytes in one read (never Escape); schedule-injection runs park the timer callback at the hook points while the next byte / EOF / Close is processed. A case is (bytes, fault offset, end error, chunking) or (bytes, gap schedule); distinct = hash of it; every case is non-trivial"
}
func (check) Assumptions() []string {
	return []string{
		"refparse is the specification of the item stream (as in C02)",
		"timing verdicts are taken only far from the 10ms threshold (gap 0 in the same read, or >= 150ms); gaps of 2-40ms accept either legal outcome",
		"the delay points ansi.timer.fired / ansi.timer.beforeReset (tag verif) only park a goroutine where it can really be descheduled",
	}
}

type spec struct {
	Kind string `json:"kind"`
	Part int    `json:"part"`
	Of   int    `json:"of"`
	N    int    `json:"n"`
}

func (check) Plan(tier string, seed int64) []harness.Batch {
	var bs []harness.Batch
	parts := 16
	nt, nr := 12, 400
	if tier == "thorough" {
		nt, nr = 300, 20000
	}
	for p := 0; p < parts; p++ {
		s, _ := json.Marshal(spec{Kind: "eof", Part: p, Of: parts})
		bs = append(bs, harness.Batch{Name: fmt.Sprintf("eof-%d", p), Seed: seed + int64(p), Spec: s, TimeoutS: 3000, CaseTimeoutS: 120})
		s, _ = json.Marshal(spec{Kind: "retention", N: nr})
		bs = append(bs, harness.Batch{Name: fmt.Sprintf("retention-%d", p), Seed: seed*31 + int64(p), Spec: s, TimeoutS: 3000, CaseTimeoutS: 120})
		s, _ = json.Marshal(spec{Kind: "timing", N: nt})
		bs = append(bs, harness.Batch{Name: fmt.Sprintf("timing-%d", p), Seed: seed*37 + int64(p), Spec: s, TimeoutS: 3000, CaseTimeoutS: 300})
	}
	for p := 0; p < 4; p++ {
		s, _ := json.Marshal(spec{Kind: "close-blocked", N: 3 * nt, Part: p})
		bs = append(bs, harness.Batch{Name: fmt.Sprintf("close-blocked-%d", p), Seed: seed*47 + int64(p), Spec: s, TimeoutS: 3000, CaseTimeoutS: 300})
	}
	// schedule injection uses process-global hook arming: serial batches
	for p := 0; p < 4; p++ {
		s, _ := json.Marshal(spec{Kind: "schedule", N: 6, Part: p})
		bs = append(bs, harness.Batch{Name: fmt.Sprintf("schedule-%d", p), Seed: seed*41 + int64(p), Spec: s, TimeoutS: 3000, CaseTimeoutS: 300})
	}
	if tier == "thorough" {
		for p := 0; p < 4; p++ {
			s, _ := json.Marshal(spec{Kind: "retention", N: 3000})
			bs = append(bs, harness.Batch{Name: fmt.Sprintf("retention-race-%d", p), Seed: seed*43 + int64(p), Spec: s, TimeoutS: 3000, Race: true})
		}
	}
	return bs
}

// corpus: strings that between them reach every parser state and every
// terminator.
func corpus() []string {
	base := []string{
		"abc", "a\x07b", "\x1b", "\x1b\x1b", "\x1bc", "\x1b(B", "\x1b #3", "\x1b\x7f", "\x1bOA", "\x1bO\x07A",
		"\x1b[A", "\x1b[1;2A", "\x1b[?25h", "\x1b[38:2:1:2:3m", "\x1b[1 q", "\x1b[1;2 !p", "\x1b[1?2A", "\x1b[1 2A", "\x1b[<0;1;1M",
		"\x1b[1\x07;2H", "\x1b[1\x182H", "\x1b[1\x1b[2H",
		"\x1b]0;title\x07", "\x1b]0;title\x1b\\", "\x1b]8;;http://x\x1b\\", "\x1b]\x1b\\", "\x1b]x\x18y", "\x1b]x\x1bcy",
		"\x1bP1$r0 q\x1b\\", "\x1bP+q544e\x1b\\", "\x1bP1;2|data\x1b\\", "\x1bP:ignored\x1b\\", "\x1bP1 2x\x1b\\", "\x1bP\x1b\\", "\x1bPq\x18", "\x1bP>|term\x07more\x1b\\",
		"\x1b_Gi=1;OK\x1b\\", "\x1b_\x1b\\", "\x1bXsos\x1b\\", "\x1b^pm\x1b\\", "\x1b^pm\x18x",
		"\x1b\\", "a\x1b\\b", "\x1b]x\x07\x1b\\",
		"\u00e9\u4f60\U0001F469\u200d\U0001F680", "\u00e9", "\U0001F1FA\U0001F1F8\U0001F1FA", "a\x80b\xffc", "\xe4\xbd", "\ufffd",
		"\x1b[200~paste\x1b[27;5;13~\x1b[201~", "\x1b[97;5:3u\x1b[1;5:2A",
		"\x00\x01\x19\x1c\x7f", "\x1b[\x7f1m", "\x1b[1;1;1;1;1;1;1;1;1;1;1;1;1;1;1;1;1;1m",
	}
	out := append([]string(nil), base...)
	// pairs: a state-leak path for every ordered pair of a small set
	small := []string{"\x1b[1;2A", "\x1b]0;t\x07", "\x1bP1|d\x1b\\", "\x1b_a\x1b\\", "\x1bXs\x18", "x", "\x1b\\", "\x1bOA", "\x1b"}
	for _, a := range small {
		for _, b := range small {
			out = append(out, a+b)
		}
	}
	return out
}

var errRead = errors.New("read failed")

type faultCase struct {
	Hex    string `json:"hex"`
	Offset int    `json:"offset"`
	Err    string `json:"end"`
	Chunks []int  `json:"chunks,omitempty"`
}

func runEOF(w *harness.W, s spec, r gen.R) {
	pairs := map[string]struct{}{}
	k := 0
	hung := 0
	for _, str := range corpus() {
		data := []byte(str)
		for off := 0; off <= len(data); off++ {
			for _, endErr := range []error{io.EOF, errRead} {
				k++
				if k%s.Of != s.Part {
					continue
				}
				prefix := data[:off]
				chunkings := [][]int{nil}
				if off > 1 {
					ones := make([]int, off)
					for i := range ones {
						ones[i] = 1
					}
					chunkings = append(chunkings, ones, []int{r.Range(1, off-1)})
				}
				for _, ch := range chunkings {
					fc := faultCase{hex.EncodeToString(prefix), off, fmt.Sprint(endErr), ch}
					cj, _ := json.Marshal(fc)
					w.Begin(string(cj))
					key, detail, obs, exp, ts := c02.EvalCase(prefix, ch, endErr, pairs)
					w.End()
					w.Case(string(cj))
					w.Count("fault_points", 1)
					if key == "" {
						if off > 3 {
							w.Sample(fc)
						}
						continue
					}
					if strings.HasPrefix(key, "lifecycle:no-close") {
						// the parser did not stop within 20s of the reader's end or
						// failure; every such case costs the full bound, two witnesses
						// per batch are enough
						w.Violation(key+":"+map[bool]string{true: "eof", false: "read-error"}[endErr == io.EOF], detail+" (reader ended with "+fmt.Sprint(endErr)+")", fc, obs, exp)
						hung++
						if hung >= 2 {
							w.Count("batches_cut_short_after_hangs", 1)
							return
						}
						continue
					}
					repro := 0
					for i := 0; i < 3; i++ {
						if k2, _, _, _, _ := c02.EvalCase(prefix, ch, endErr, nil); k2 == key {
							repro++
						}
					}
					if repro < 3 {
						if ts {
							w.Inconclusive("timing-sensitive-mismatch-not-reproducible")
						} else {
							w.Inconclusive("mismatch-not-reproducible:" + key)
						}
						continue
					}
					w.Violation(key, detail, fc, obs, exp)
				}
			}
		}
	}
	for p := range pairs {
		w.Distinct("ref_state_class_pairs", p)
	}
	w.Count("exhaustive_spaces", 1)
}

// ---------------------------------------------------------------------------
// retention

func deepCopy(seq ansi.Sequence) ansi.Sequence {
	switch s := seq.(type) {
	case ansi.ESC:
		return ansi.ESC{Intermediate: append([]rune(nil), s.Intermediate...), Final: s.Final}
	case ansi.CSI:
		c := ansi.CSI{Intermediate: append([]rune(nil), s.Intermediate...), Final: s.Final}
		for _, p := range s.Parameters {
			c.Parameters = append(c.Parameters, append([]int(nil), p...))
		}
		return c
	case ansi.OSC:
		return ansi.OSC{Payload: append([]rune(nil), s.Payload...)}
	case ansi.DCS:
		return ansi.DCS{Final: s.Final, Intermediate: append([]rune(nil), s.Intermediate...), Parameters: append([]int(nil), s.Parameters...), Data: append([]rune(nil), s.Data...)}
	}
	return seq
}

func same(a, b ansi.Sequence) bool {
	norm := func(x ansi.Sequence) string { return fmt.Sprintf("%T %v", x, x) }
	if reflect.TypeOf(a) != reflect.TypeOf(b) {
		return false
	}
	switch x := a.(type) {
	case ansi.CSI:
		y := b.(ansi.CSI)
		return fmt.Sprint(x.Intermediate, x.Parameters, x.Final) == fmt.Sprint(y.Intermediate, y.Parameters, y.Final)
	case ansi.ESC:
		y := b.(ansi.ESC)
		return fmt.Sprint(x.Intermediate, x.Final) == fmt.Sprint(y.Intermediate, y.Final)
	case ansi.OSC:
		return string(x.Payload) == string(b.(ansi.OSC).Payload)
	case ansi.DCS:
		y := b.(ansi.DCS)
		return fmt.Sprint(x.Intermediate, x.Parameters, x.Final, string(x.Data)) == fmt.Sprint(y.Intermediate, y.Parameters, y.Final, string(y.Data))
	}
	return norm(a) == norm(b)
}

type retCase struct {
	Hex    string `json:"hex"`
	Policy string `json:"policy"` // never | atonce | late | slow
	Lag    int    `json:"lag,omitempty"`
	Chunks []int  `json:"chunks,omitempty"`
}

func genSeqStream(r gen.R) []byte {
	var sb strings.Builder
	n := r.Range(3, 60)
	for i := 0; i < n; i++ {
		switch r.Intn(8) {
		case 0:
			sb.WriteString("x")
		case 1:
			fmt.Fprintf(&sb, "\x1b%c%c", byte(r.Range(0x20, 0x2f)), byte(r.Range(0x30, 0x7e)))
		case 2:
			fmt.Fprintf(&sb, "\x1b]%d;%s\x07", r.Intn(100), strings.Repeat("p", r.Intn(200)))
		case 3:
			fmt.Fprintf(&sb, "\x1bP%d;%d%c%c%s\x1b\\", r.Intn(10), r.Intn(10), byte(r.Range(0x20, 0x2f)), byte(r.Range(0x40, 0x7e)), strings.Repeat("d", r.Intn(200)))
		default:
			priv := []string{"", "?", ">", "<"}[r.Intn(4)]
			var ps []string
			for k := r.Intn(8); k > 0; k-- {
				p := fmt.Sprint(r.Intn(1000))
				for q := r.Intn(3); q > 0; q-- {
					p += ":" + fmt.Sprint(r.Intn(300))
				}
				ps = append(ps, p)
			}
			inter := ""
			for k := r.Intn(3); k > 0; k-- {
				inter += string(rune(r.Range(0x20, 0x2f)))
			}
			fmt.Fprintf(&sb, "\x1b[%s%s%s%c", priv, strings.Join(ps, ";"), inter, byte(r.Range(0x40, 0x7e)))
		}
	}
	return []byte(sb.String())
}

func runRetention(w *harness.W, r gen.R) {
	data := genSeqStream(r)
	rc := retCase{Hex: hex.EncodeToString(data), Policy: []string{"never", "atonce", "late", "slow"}[r.Intn(4)], Lag: r.Range(1, 5)}
	if r.Intn(2) == 0 {
		rem := len(data)
		for rem > 0 {
			c := r.Range(1, 40)
			if c > rem {
				c = rem
			}
			rc.Chunks = append(rc.Chunks, c)
			rem -= c
		}
	}
	cj, _ := json.Marshal(rc)
	w.Begin(string(cj))
	defer w.End()
	rd := &parserun.Reader{Data: data, Chunks: append([]int(nil), rc.Chunks...)}
	p := ansi.NewParser(rd)
	type held struct {
		orig, copy ansi.Sequence
		finished   bool
	}
	var items []*held
	checkAll := func(when string) bool {
		for i, h := range items {
			if !h.finished && !same(h.orig, h.copy) {
				w.Violation("retention:modified-before-finish:"+fmt.Sprintf("%T", h.copy), fmt.Sprintf("item #%d was modified by later parsing before the consumer handed it back (%s, policy %s)", i, when, rc.Policy), rc, fmt.Sprintf("%v", h.orig), fmt.Sprintf("%v", h.copy))
				return false
			}
		}
		return true
	}
	timer := time.NewTimer(30 * time.Second)
	defer timer.Stop()
	eofs := 0
loop:
	for {
		select {
		case seq, ok := <-p.Next():
			if !ok {
				break loop
			}
			if _, isEOF := seq.(ansi.EOF); isEOF {
				eofs++
				continue
			}
			if _, isErr := seq.(error); isErr {
				continue
			}
			h := &held{orig: seq, copy: deepCopy(seq)}
			items = append(items, h)
			switch rc.Policy {
			case "atonce":
				p.Finish(seq)
				h.finished = true
			case "late":
				if k := len(items) - 1 - rc.Lag; k >= 0 {
					if !checkAll("before late Finish") {
						break loop
					}
					p.Finish(items[k].orig)
					items[k].finished = true
				}
			case "slow":
				// let the parser run as far ahead as its channel allows
				time.Sleep(200 * time.Microsecond)
			}
		case <-timer.C:
			w.Inconclusive("retention-run-did-not-close")
			break loop
		}
	}
	ok := checkAll("at end of input")
	w.Case(string(cj))
	w.Count("retained_sequences", int64(len(items)))
	if ok && eofs != 1 {
		w.Violation(fmt.Sprintf("lifecycle:eofs=%d", eofs), "end-of-input marker not delivered exactly once", rc, fmt.Sprint(eofs), "1")
	}
	if len(items) > 20 {
		w.Sample(rc)
	}
}

// ---------------------------------------------------------------------------
// timing

type timingCase struct {
	Before string `json:"before_hex"` // bytes before the ESC (same read)
	After  string `json:"after_hex"`  // bytes after the gap
	GapMs  int    `json:"gap_ms"`     // 0 = same read
	Hook   string `json:"hook,omitempty"`
	End    string `json:"end,omitempty"` // for schedule cases: next | eof | close
	// Repeat > 0: the (before, ESC, silence) part is delivered Repeat+1 times
	// on the same parser before After: every lone ESC must be reported
	Repeat int `json:"repeat,omitempty"`
	// Partial > 0: After starts with a multi-byte character; its first
	// Partial bytes follow the ESC at once (in the same read, or in the next
	// read without a pause when SplitESC is set), the rest arrives after the
	// gap. The ESC was promptly followed by further bytes.
	Partial  int  `json:"bytes_of_the_next_character_that_follow_at_once,omitempty"`
	SplitESC bool `json:"esc_and_the_partial_character_in_separate_reads,omitempty"`
}

// evalPartial: ESC promptly followed by the first bytes of a multi-byte
// character whose remaining bytes arrive after a long pause.
func evalPartial(tc timingCase) (key, detail, observed, expected string) {
	before, _ := hex.DecodeString(tc.Before)
	after, _ := hex.DecodeString(tc.After)
	first := append(append([]byte(nil), before...), 0x1b)
	data := append(append([]byte(nil), first...), after...)
	chunks := []int{len(first) + tc.Partial}
	if tc.SplitESC {
		chunks = []int{len(first), tc.Partial}
	}
	rd := &parserun.Reader{Data: data, Chunks: chunks}
	gap := time.Duration(tc.GapMs) * time.Millisecond
	rd.Gate = func(readNo int, off int) {
		if off == len(first)+tc.Partial {
			time.Sleep(gap)
		}
	}
	obs := parserun.Run(rd, true, 30*time.Second)
	if obs.Hung {
		return "lifecycle:no-close-within-bound", "parser did not close", "", ""
	}
	without := refparse.Decode(data)
	show := func(ts []refparse.Tok) string {
		var l []string
		for _, t := range ts {
			l = append(l, t.String())
		}
		return strings.Join(l, " ")
	}
	if !refparse.Match(without, obs.Toks, nil).OK {
		return "timing:escape-reported-although-bytes-followed-at-once", fmt.Sprintf("ESC followed at once by the first %d byte(s) of a multi-byte character (the rest %d ms later) must not be reported as the Escape key", tc.Partial, tc.GapMs), show(obs.Toks), show(refparse.Expected(without))
	}
	return "", "", "", ""
}

// evalRepeated: several lone ESC keys, each followed by silence, on one parser.
func evalRepeated(tc timingCase) (key, detail, observed, expected string) {
	before, _ := hex.DecodeString(tc.Before)
	after, _ := hex.DecodeString(tc.After)
	first := append(append([]byte(nil), before...), 0x1b)
	var data []byte
	var chunks []int
	gapAt := map[int]bool{}
	var want []rune
	for i := 0; i <= tc.Repeat; i++ {
		data = append(data, first...)
		chunks = append(chunks, len(first))
		gapAt[len(data)] = true
		want = append(want, refparse.Decode(first)...)
		want = append(want, refparse.TimeoutRune)
	}
	data = append(data, after...)
	want = append(want, refparse.Decode(after)...)
	rd := &parserun.Reader{Data: data, Chunks: chunks}
	gap := time.Duration(tc.GapMs) * time.Millisecond
	rd.Gate = func(readNo int, off int) {
		if gapAt[off] {
			time.Sleep(gap)
		}
	}
	obs := parserun.Run(rd, true, 60*time.Second)
	if obs.Hung {
		return "lifecycle:no-close-within-bound", "parser did not close", "", ""
	}
	show := func(ts []refparse.Tok) string {
		var l []string
		for _, t := range ts {
			l = append(l, t.String())
		}
		return strings.Join(l, " ")
	}
	if !refparse.Match(want, obs.Toks, nil).OK {
		return "timing:later-lone-escape-not-reported", fmt.Sprintf("%d lone ESC keys, each followed by %dms of silence, on one parser: every one must be reported as Escape and the following byte parsed from ground", tc.Repeat+1, tc.GapMs), show(obs.Toks), show(refparse.Expected(want))
	}
	return "", "", "", ""
}

// evalTiming feeds before+ESC, waits gap, feeds after, then EOF.
func evalTiming(tc timingCase) (key, detail, observed, expected string) {
	if tc.Repeat > 0 {
		return evalRepeated(tc)
	}
	if tc.Partial > 0 {
		return evalPartial(tc)
	}
	before, _ := hex.DecodeString(tc.Before)
	after, _ := hex.DecodeString(tc.After)
	first := append(append([]byte(nil), before...), 0x1b)
	var data []byte
	var chunks []int
	if tc.GapMs == 0 {
		data = append(first, after...)
		chunks = nil
	} else {
		data = append(first, after...)
		chunks = []int{len(first)}
	}
	rd := &parserun.Reader{Data: data, Chunks: chunks}
	gap := time.Duration(tc.GapMs) * time.Millisecond
	rd.Gate = func(readNo int, off int) {
		if tc.GapMs > 0 && off == len(first) {
			time.Sleep(gap)
		}
	}
	obs := parserun.Run(rd, true, 30*time.Second)
	if obs.Hung {
		return "lifecycle:no-close-within-bound", "parser did not close", "", ""
	}
	if obs.EOFs != 1 || obs.AfterEOF != 0 {
		return fmt.Sprintf("lifecycle:eofs=%d,after=%d", obs.EOFs, obs.AfterEOF), "EOF not exactly once and last", fmt.Sprint(obs.Toks), ""
	}
	runes := refparse.Decode(first)
	withTimeout := append(append([]rune(nil), runes...), refparse.TimeoutRune)
	withTimeout = append(withTimeout, refparse.Decode(after)...)
	without := append(append([]rune(nil), runes...), refparse.Decode(after)...)
	okWith := refparse.Match(withTimeout, obs.Toks, nil).OK
	okWithout := refparse.Match(without, obs.Toks, nil).OK
	show := func(ts []refparse.Tok) string {
		var l []string
		for _, t := range ts {
			l = append(l, t.String())
		}
		return strings.Join(l, " ")
	}
	switch {
	case tc.GapMs == 0 && len(after) > 0:
		if !okWithout {
			k := "timing:escape-reported-with-bytes-in-same-read"
			if !okWith {
				k = "timing:garbled"
			}
			return k, "ESC followed by more bytes in the same read must never be reported as Escape", show(obs.Toks), show(refparse.Expected(without))
		}
	case tc.GapMs >= 150:
		if !okWith {
			k := "timing:no-escape-after-silence"
			if !okWithout {
				k = "timing:garbled"
			}
			return k, "lone ESC followed by silence must be reported as Escape exactly once and the next byte parsed from ground", show(obs.Toks), show(refparse.Expected(withTimeout))
		}
	default:
		if !okWith && !okWithout {
			return "timing:garbled", "near the threshold one of the two legal outcomes must be produced", show(obs.Toks), show(refparse.Expected(withTimeout)) + "  OR  " + show(refparse.Expected(without))
		}
	}
	return "", "", "", ""
}

var afters = []string{"x", "[A", "[1;5A", "OA", "]0;t\x07", "\x1b[B", "\u00e9", "\\", "\x7f", "P1|d\x1b\\", ""}
var befores = []string{"", "a", "\x1b[1m", "\x1b]x\x07", "\u00e9"}

func runTimingBatch(w *harness.W, r gen.R, n int) {
	var cases []timingCase
	for i := 0; i < n; i++ {
		gap := []int{0, 0, 150, 200, 300, 2, 5, 9, 11, 20, 40}[r.Intn(11)]
		tc := timingCase{Before: hex.EncodeToString([]byte(befores[r.Intn(len(befores))])), After: hex.EncodeToString([]byte(afters[r.Intn(len(afters))])), GapMs: gap}
		if i%5 == 4 {
			tc.GapMs, tc.Repeat = 150+50*r.Intn(3), 1+r.Intn(3)
		}
		if i%6 == 3 {
			ch := []string{"\u00e9", "\u20ac", "\U0001F525z", "\u4f60x"}[r.Intn(4)]
			tc.After = hex.EncodeToString([]byte(ch))
			tc.Partial = 1 + r.Intn(len(string([]rune(ch)[0]))-1)
			tc.GapMs, tc.Repeat = 60+30*r.Intn(3), 0
			tc.SplitESC = r.Intn(2) == 0
		}
		cases = append(cases, tc)
	}
	w.Begin("timing batch (parallel)")
	var wg sync.WaitGroup
	var mu sync.Mutex
	type res struct {
		tc                 timingCase
		key, det, obs, exp string
	}
	var results []res
	sem := make(chan struct{}, 16)
	for _, tc := range cases {
		tc := tc
		wg.Add(1)
		sem <- struct{}{}
		go func() {
			defer wg.Done()
			defer func() { <-sem }()
			k, d, o, e := evalTiming(tc)
			mu.Lock()
			results = append(results, res{tc, k, d, o, e})
			mu.Unlock()
		}()
	}
	wg.Wait()
	w.End()
	for _, rs := range results {
		cj, _ := json.Marshal(rs.tc)
		w.Case(string(cj))
		w.Count("timing_cases", 1)
		w.Distinct("gaps_ms", fmt.Sprint(rs.tc.GapMs))
		if rs.key == "" {
			continue
		}
		// re-run alone, idle
		w.Begin(string(cj))
		repro := 0
		for i := 0; i < 3; i++ {
			if k2, _, _, _ := evalTiming(rs.tc); k2 == rs.key {
				repro++
			}
		}
		w.End()
		if repro < 3 {
			w.Inconclusive("inconclusive-timing")
			continue
		}
		w.Violation(rs.key, rs.det, rs.tc, rs.obs, rs.exp)
	}
	if len(cases) > 0 {
		w.Sample(cases[0])
	}
}

// ---------------------------------------------------------------------------
// injected schedules: park the timer callback at a hook point

func runSchedule(w *harness.W, r gen.R, n int) {
	for i := 0; i < n; i++ {
		tc := timingCase{
			Before: hex.EncodeToString([]byte(befores[r.Intn(len(befores))])),
			After:  hex.EncodeToString([]byte(afters[r.Intn(len(afters)-1)])),
			Hook:   []string{"ansi.timer.fired", "ansi.timer.beforeReset"}[r.Intn(2)],
			End:    []string{"next", "eof", "close"}[r.Intn(3)],
		}
		if i%3 == 2 {
			// the application is not reading when the timeout fires: the
			// callback waits for room in the output channel (two items are
			// ahead of the Escape), the next bytes arrive meanwhile
			tc.Hook, tc.End, tc.GapMs = "", "slow-consumer", 150
			tc.Before = hex.EncodeToString([]byte([]string{"ab", "a\u00e9", "\x1b[1mz"}[r.Intn(3)]))
		}
		cj, _ := json.Marshal(tc)
		w.Begin(string(cj))
		var key, det, obs, exp string
		var crashed bool
		if tc.End == "slow-consumer" {
			key, det, obs, exp = evalSlowConsumer(tc)
		} else {
			key, det, obs, exp, crashed = evalSchedule(tc)
		}
		w.End()
		w.Case(string(cj))
		w.Count("schedule_cases", 1)
		w.Distinct("schedules", tc.Hook+"/"+tc.End)
		_ = crashed
		if key != "" {
			if tc.End == "slow-consumer" {
				w.Violation(key, det, tc, obs, exp)
			} else {
				w.Violation(key, det+" (injected schedule: callback parked at "+tc.Hook+" while "+tc.End+" is processed)", tc, obs, exp)
			}
		}
		w.Sample(tc)
	}
}

// evalSlowConsumer: two items wait unread in the output channel, a lone ESC is
// followed by silence, the timeout fires and has to wait for the consumer;
// the next bytes arrive before the consumer reads on.
func evalSlowConsumer(tc timingCase) (key, detail, observed, expected string) {
	before, _ := hex.DecodeString(tc.Before)
	after, _ := hex.DecodeString(tc.After)
	first := append(append([]byte(nil), before...), 0x1b)
	data := append(append([]byte(nil), first...), after...)
	rd := &parserun.Reader{Data: data, Chunks: []int{len(first)}}
	start := make(chan struct{})
	var once sync.Once
	rd.Gate = func(readNo int, off int) {
		if off == len(first) {
			time.Sleep(time.Duration(tc.GapMs) * time.Millisecond)
			once.Do(func() {
				go func() {
					// the rest has been handed to the parser: let it work on it
					time.Sleep(60 * time.Millisecond)
					close(start)
				}()
			})
		}
	}
	var obs parserun.Obs
	p := ansi.NewParser(rd)
	done := make(chan struct{})
	go func() {
		defer close(done)
		select {
		case <-start:
		case <-time.After(10 * time.Second):
		}
		for seq := range p.Next() {
			obs.Flatten(seq)
			p.Finish(seq)
		}
		obs.Closed = true
	}()
	select {
	case <-done:
	case <-time.After(30 * time.Second):
		return "lifecycle:no-close-within-bound", "parser did not close its channel (consumer started late)", fmt.Sprint(obs.Toks), "EOF then close"
	}
	runes := refparse.Decode(first)
	withT := append(append([]rune(nil), runes...), refparse.TimeoutRune)
	withT = append(withT, refparse.Decode(after)...)
	without := append(append([]rune(nil), runes...), refparse.Decode(after)...)
	if !refparse.Match(withT, obs.Toks, nil).OK && !refparse.Match(without, obs.Toks, nil).OK {
		var l []string
		for _, t := range obs.Toks {
			l = append(l, t.String())
		}
		var e []string
		for _, t := range refparse.Expected(withT) {
			e = append(e, t.String())
		}
		return "timing:garbled:consumer-not-reading-when-the-timeout-fires", fmt.Sprintf("two items unread in the output channel, ESC, %dms of silence (the timeout fires and waits for room), then %q before the consumer reads on: the bytes after the Escape must be parsed from ground", tc.GapMs, after), strings.Join(l, " "), strings.Join(e, " ")
	}
	return "", "", "", ""
}

func evalSchedule(tc timingCase) (key, detail, observed, expected string, crashed bool) {
	before, _ := hex.DecodeString(tc.Before)
	after, _ := hex.DecodeString(tc.After)
	first := append(append([]byte(nil), before...), 0x1b)
	parked := make(chan struct{})
	release := make(chan struct{})
	var once sync.Once
	verifhook.Arm(tc.Hook, func() {
		fired := false
		once.Do(func() { fired = true })
		if fired {
			close(parked)
			<-release
		}
	})
	defer verifhook.DisarmAll()
	data := append(append([]byte(nil), first...), after...)
	if tc.End != "next" {
		data = first
	}
	rd := &parserun.Reader{Data: data, Chunks: []int{len(first)}}
	block := make(chan struct{})
	if tc.End == "close" {
		rd.Block = block
	}
	rd.Gate = func(readNo int, off int) {
		if off == len(first) {
			// the timer fires during this wait; the callback parks at the hook
			select {
			case <-parked:
			case <-time.After(2 * time.Second):
			}
		}
	}
	var obs parserun.Obs
	p := ansi.NewParser(rd)
	done := make(chan struct{})
	go func() {
		defer close(done)
		for seq := range p.Next() {
			obs.Flatten(seq)
			p.Finish(seq)
		}
		obs.Closed = true
	}()
	if tc.End == "close" {
		select {
		case <-parked:
		case <-time.After(3 * time.Second):
		}
		p.Close()
		close(block)
	}
	// give the parser time to process what follows while the callback is parked
	time.Sleep(30 * time.Millisecond)
	close(release)
	select {
	case <-done:
	case <-time.After(20 * time.Second):
		return "lifecycle:no-close-within-bound", "parser did not close its channel", fmt.Sprint(obs.Toks), "EOF then close", false
	}
	if obs.EOFs != 1 || obs.AfterEOF != 0 || len(obs.Toks) == 0 || obs.Toks[len(obs.Toks)-1].K != 'Z' {
		return fmt.Sprintf("lifecycle:eofs=%d,after=%d", obs.EOFs, obs.AfterEOF), "end-of-input marker not exactly once and last", fmt.Sprint(obs.Toks), "exactly one EOF, last", false
	}
	runes := refparse.Decode(first)
	withT := append(append([]rune(nil), runes...), refparse.TimeoutRune)
	without := append([]rune(nil), runes...)
	if tc.End == "next" {
		withT = append(withT, refparse.Decode(after)...)
		without = append(without, refparse.Decode(after)...)
	}
	if !refparse.Match(withT, obs.Toks, nil).OK && !refparse.Match(without, obs.Toks, nil).OK {
		var l []string
		for _, t := range obs.Toks {
			l = append(l, t.String())
		}
		return "timing:garbled", "with the callback running late one of the two legal outcomes must be produced, never both", strings.Join(l, " "), "Escape then the rest from ground, or the escape sequence", false
	}
	return "", "", "", "", false
}

// closeCase: Close() while the parser is blocked waiting for input (what
// Vaxis.Suspend does); the reader then returns the wake-up bytes.
type closeCase struct {
	Before     string `json:"before_hex"`
	Wake       string `json:"wake_hex"`
	ConsumerMs int    `json:"consumer_delay_ms"` // per item (a slow application)
}

func evalCloseBlocked(cc closeCase) (key, detail, observed, expected string) {
	before, _ := hex.DecodeString(cc.Before)
	wake, _ := hex.DecodeString(cc.Wake)
	data := append(append([]byte(nil), before...), wake...)
	closed := make(chan struct{})
	// after the wake-up bytes the reader blocks for good: the input does not end
	never := make(chan struct{})
	rd := &parserun.Reader{Data: data, Chunks: []int{len(before), len(wake)}, Block: never}
	if len(before) == 0 {
		rd.Chunks = []int{len(wake)}
	}
	rd.Gate = func(readNo int, off int) {
		if off == len(before) {
			<-closed // the parser is inside Read when Close is called
		}
	}
	var obs parserun.Obs
	p := ansi.NewParser(rd)
	done := make(chan struct{})
	go func() {
		defer close(done)
		for seq := range p.Next() {
			obs.Flatten(seq)
			p.Finish(seq)
			if cc.ConsumerMs > 0 {
				time.Sleep(time.Duration(cc.ConsumerMs) * time.Millisecond)
			}
		}
		obs.Closed = true
	}()
	// let the parser consume `before` and block in the read of the wake-up bytes
	time.Sleep(15 * time.Millisecond)
	p.Close()
	close(closed)
	waited := make(chan struct{})
	go func() { p.WaitClose(); close(waited) }()
	select {
	case <-waited:
	case <-time.After(20 * time.Second):
		return "lifecycle:waitclose-never-returns", "Close was called while the parser waited for input and the reader then returned bytes: WaitClose did not return", fmt.Sprint(obs.Toks), "WaitClose returns"
	}
	select {
	case <-done:
	case <-time.After(20 * time.Second):
		return "lifecycle:no-close-within-bound", "parser did not close its channel after Close", fmt.Sprint(obs.Toks), "EOF then close"
	}
	var l []string
	for _, t := range obs.Toks {
		l = append(l, t.String())
	}
	if obs.EOFs != 1 || obs.AfterEOF != 0 || len(obs.Toks) == 0 || obs.Toks[len(obs.Toks)-1].K != 'Z' {
		return fmt.Sprintf("lifecycle:close-while-blocked:eofs=%d,after=%d", obs.EOFs, obs.AfterEOF), "after Close() on a parser blocked in Read the end-of-input marker must be delivered exactly once, as the last item, before the channel is closed", strings.Join(l, " "), "... EOF (exactly one, last), channel closed"
	}
	return "", "", "", ""
}

func runCloseBlocked(w *harness.W, r gen.R, n int, part int) {
	wakes := []string{"x", "\x1b", "\x1b[?62;4c", "\x1b[", "\x1b]0;t", "\u00e9", "ab\x1b"}
	delays := []int{0, 30}
	if w.Tier == "thorough" {
		delays = []int{0, 2, 12, 30, 80}
	}
	// the whole product (what was read before, the wake-up bytes, how slow
	// the consumer is), this part's quarter of it
	k := 0
	first := true
	for _, b := range befores {
		for _, suffix := range []string{"", "ab", "abc"} {
			for _, wk := range wakes {
				for _, d := range delays {
					k++
					if k%4 != part%4 {
						continue
					}
					cc := closeCase{Before: hex.EncodeToString([]byte(b + suffix)), Wake: hex.EncodeToString([]byte(wk)), ConsumerMs: d}
					cj, _ := json.Marshal(cc)
					w.Begin(string(cj))
					key, det, obs, exp := evalCloseBlocked(cc)
					w.End()
					w.Case(string(cj))
					w.Count("close_while_blocked_cases", 1)
					if key != "" {
						w.Violation(key, det, cc, obs, exp)
					} else if first {
						first = false
						w.Sample(cc)
					}
				}
			}
		}
	}
}

func (c check) Run(w *harness.W, b harness.Batch) {
	var s spec
	json.Unmarshal(b.Spec, &s)
	r := gen.New(b.Seed)
	switch s.Kind {
	case "eof":
		runEOF(w, s, r)
	case "retention":
		for i := 0; i < s.N; i++ {
			runRetention(w, r)
		}
	case "timing":
		runTimingBatch(w, r, s.N)
	case "close-blocked":
		runCloseBlocked(w, r, s.N, s.Part)
	case "schedule":
		runSchedule(w, r, s.N)
	}
}

func (check) Finalize(tier string, m *harness.Merged) string {
	if m.Counts["fault_points"] == 0 || m.Counts["retained_sequences"] == 0 || m.Counts["timing_cases"] == 0 || m.Counts["schedule_cases"] == 0 {
		return "a sub-workload observed nothing"
	}
	return ""
}

func (c check) Replay(w *harness.W, raw json.RawMessage) {
	var probe map[string]json.RawMessage
	json.Unmarshal(raw, &probe)
	switch {
	case probe["offset"] != nil:
		var fc faultCase
		json.Unmarshal(raw, &fc)
		data, _ := hex.DecodeString(fc.Hex)
		var e error = io.EOF
		if fc.Err != "EOF" {
			e = errRead
		}
		k, d, o, ex, _ := c02.EvalCase(data, fc.Chunks, e, nil)
		fmt.Printf("prefix %q end=%s\nkey=%s %s\nobserved %s\nexpected %s\n", data, fc.Err, k, d, o, ex)
		if k != "" {
			w.Violation(k, d, fc, o, ex)
		}
	case probe["gap_ms"] != nil:
		var tc timingCase
		json.Unmarshal(raw, &tc)
		var k, d, o, ex string
		if tc.End == "slow-consumer" {
			k, d, o, ex = evalSlowConsumer(tc)
		} else if tc.Hook != "" {
			k, d, o, ex, _ = evalSchedule(tc)
		} else {
			k, d, o, ex = evalTiming(tc)
		}
		fmt.Printf("%+v\nkey=%s %s\nobserved %s\nexpected %s\n", tc, k, d, o, ex)
		if k != "" {
			w.Violation(k, d, tc, o, ex)
		}
	default:
		fmt.Println("retention cases are replayed by re-running their batch")
	}
}
