// Package c02: the input parser conforms to the VT500 state machine plus the
// documented extensions (DESIGN.md \u00a73 C02).
package c02

import (
	"encoding/hex"
	"encoding/json"
	"fmt"
	"sort"
	"strings"
	"time"

	"github.com/rivo/uniseg"

	"verif/internal/gen"
	"verif/internal/harness"
	"verif/internal/parserun"
	"verif/internal/refparse"
	"verif/internal/widthtab"
)

type check struct{}

func init() { harness.Register(check{}) }

func (check) ID() string    { return "C02" }
func (check) Level() string { return "exploration" }
func (check) Rule() string {
	return "bounded-exhaustive: every string up to length 4 (quick) / 5 (thorough) over one representative per byte class (27 symbols), each fed as one read and under two random chunkings; plus grammar-generated well-formed and malformed sequences with random parameters/intermediates/payloads/terminators interleaved with curated text, and random byte soup. A case is (bytes, chunking); distinct = hash of both; every case is non-trivial (the oracle compares the full delivered item list with the reference machine)"
}
func (check) Assumptions() []string {
	return []string{
		"refparse (independent transcription of vt100.net/emu/dec_ansi_parser + the documented extensions) is the specification; open points are either-accepted (see DESIGN.md \u00a72.2)",
		"uniseg is trusted for grapheme segmentation of the reference's printable run; widths of curated clusters come from widthtab",
		"a mismatch is reported only if it reproduces on 3 re-runs (the 10ms Escape timer is C08's subject)",
	}
}

type spec struct {
	Kind string `json:"kind"`
	Part int    `json:"part"`
	Of   int    `json:"of"`
	Len  int    `json:"len"`
	N    int    `json:"n"`
}

var alphabet = [][]byte{
	{0x00}, {0x07}, {0x18}, {0x1a}, {0x1b}, {0x19}, {0x1c}, {' '}, {'$'}, {'1'}, {':'}, {';'}, {'?'}, {'A'}, {'O'}, {'P'}, {'X'}, {'['}, {'\\'}, {']'}, {'^'}, {'_'}, {'m'}, {0x7f}, {0xc3, 0xa9}, {0x80}, {0xff},
}

func (check) Plan(tier string, seed int64) []harness.Batch {
	var bs []harness.Batch
	L, parts := 4, 16
	nGram, nSoup := 6000, 150
	if tier == "thorough" {
		L, parts = 5, 64
		nGram, nSoup = 150000, 3000
	}
	for p := 0; p < parts; p++ {
		s, _ := json.Marshal(spec{Kind: "exhaustive", Part: p, Of: parts, Len: L})
		bs = append(bs, harness.Batch{Name: fmt.Sprintf("exhaustive-%d", p), Seed: seed, Spec: s, TimeoutS: 3000})
	}
	for p := 0; p < 16; p++ {
		s, _ := json.Marshal(spec{Kind: "grammar", N: nGram / 16})
		gb := harness.Batch{Name: fmt.Sprintf("grammar-%d", p), Seed: seed*7919 + int64(p), Spec: s, TimeoutS: 3000}
		if p%2 == 1 {
			// the consumer recycles every sequence (Finish); one P makes the
			// sync.Pool hand the recycled slices straight back to the parser
			s, _ = json.Marshal(spec{Kind: "grammar-finish", N: nGram / 16})
			gb.Spec, gb.Name = s, fmt.Sprintf("grammar-finish-%d", p)
			gb.Env = []string{"GOMAXPROCS=1"}
		}
		bs = append(bs, gb)
		s, _ = json.Marshal(spec{Kind: "soup", N: nSoup / 16})
		bs = append(bs, harness.Batch{Name: fmt.Sprintf("soup-%d", p), Seed: seed*104729 + int64(p), Spec: s, TimeoutS: 3000})
	}
	return bs
}

type pcase struct {
	Hex    string `json:"hex"`
	Chunks []int  `json:"chunks,omitempty"`
	Kind   string `json:"kind"`
}

func (c check) Run(w *harness.W, b harness.Batch) {
	var s spec
	json.Unmarshal(b.Spec, &s)
	r := gen.New(b.Seed + int64(s.Part)*31)
	pairs := map[string]struct{}{}
	switch s.Kind {
	case "exhaustive":
		n := len(alphabet)
		total := 0
		for l := 0; l <= s.Len; l++ {
			cnt := 1
			for i := 0; i < l; i++ {
				cnt *= n
			}
			idx := make([]int, l)
			for k := 0; k < cnt; k++ {
				if k%s.Of == s.Part {
					var data []byte
					for _, i := range idx {
						data = append(data, alphabet[i]...)
					}
					runCase(w, data, nil, "exhaustive", pairs)
					for t := 0; t < 2 && len(data) > 1; t++ {
						runCase(w, data, randChunks(r, len(data)), "exhaustive", pairs)
					}
					total++
				}
				for j := l - 1; j >= 0; j-- {
					idx[j]++
					if idx[j] < n {
						break
					}
					idx[j] = 0
				}
			}
		}
		w.Count("exhaustive_strings", int64(total))
		w.Count("exhaustive_spaces", 1)
	case "grammar", "grammar-finish":
		FinishMode = s.Kind == "grammar-finish"
		if FinishMode {
			w.Count("finish_mode_batches", 1)
		}
		for i := 0; i < s.N; i++ {
			data := genGrammar(r)
			runCase(w, data, nil, "grammar", pairs)
			runCase(w, data, randChunks(r, len(data)), "grammar", pairs)
			if i%7 == 0 {
				ones := make([]int, len(data))
				for k := range ones {
					ones[k] = 1
				}
				runCase(w, data, ones, "grammar", pairs)
			}
		}
	case "soup":
		for i := 0; i < s.N; i++ {
			n := r.Range(1, 2000)
			if i%10 == 0 {
				n = r.Range(4000, 65536)
			}
			data := make([]byte, n)
			for k := range data {
				switch r.Intn(8) {
				case 0:
					data[k] = alphabet[r.Intn(len(alphabet))][0]
				case 1:
					data[k] = 0x1b
				default:
					data[k] = byte(r.Intn(256))
				}
			}
			runCase(w, data, nil, "soup", pairs)
			runCase(w, data, randChunks(r, len(data)), "soup", pairs)
		}
	}
	for p := range pairs {
		w.Distinct("ref_state_class_pairs", p)
	}
}

func randChunks(r gen.R, n int) []int {
	var cs []int
	rem := n
	for rem > 0 {
		c := 1
		switch r.Intn(4) {
		case 0:
			c = 1
		case 1:
			c = r.Range(1, 3)
		case 2:
			c = r.Range(1, 16)
		default:
			c = r.Range(1, n)
		}
		if c > rem {
			c = rem
		}
		cs = append(cs, c)
		rem -= c
	}
	return cs
}

// one evaluation of a case; returns violation key ("" if fine) and detail
func evalCase(data []byte, chunks []int, pairs map[string]struct{}) (key, detail, observed, expected string, timingSensitive bool) {
	return EvalCase(data, chunks, nil, pairs)
}

// EvalCase runs the real parser on data under the given chunking and end
// error and judges what it delivers (also used by C08).
// FinishMode makes the consumer hand every sequence back to the parser with
// Finish once it has copied it (as vaxis.go, cell.go and widgets/term do), so
// that the parser's pooled slices are recycled into later sequences.
var FinishMode bool

func EvalCase(data []byte, chunks []int, endErr error, pairs map[string]struct{}) (key, detail, observed, expected string, timingSensitive bool) {
	rd := &parserun.Reader{Data: data, Chunks: append([]int(nil), chunks...), EndErr: endErr}
	obs := parserun.Run(rd, FinishMode, 20*time.Second)
	if obs.Hung {
		return "lifecycle:no-close-within-bound", "parser did not close its channel after the reader returned EOF", fmt.Sprintf("%d items", obs.Items), "EOF then close", true
	}
	if obs.EOFs != 1 || obs.AfterEOF != 0 || len(obs.Toks) == 0 || obs.Toks[len(obs.Toks)-1].K != 'Z' {
		return fmt.Sprintf("lifecycle:eofs=%d,after=%d", obs.EOFs, obs.AfterEOF), "end-of-input marker not delivered exactly once as the last item", fmt.Sprint(obs.Toks), "exactly one EOF, last", false
	}
	runes := refparse.Decode(data)
	res := refparse.Match(runes, obs.Toks, pairs)
	if !res.OK {
		exp := refparse.Expected(runes)
		// a chunk boundary right after an ESC is timing sensitive
		ts := false
		off := 0
		for _, c := range chunks {
			off += c
			if off > 0 && off < len(data) && data[off-1] == 0x1b {
				ts = true
			}
		}
		return res.Key, res.Detail, clipToks(obs.Toks), clipToks(exp), ts
	}
	// clusters
	_, rawFlag, offs := refparse.DecodeInfo(data)
	readEnd := map[int]bool{}
	for _, e := range obs.ReadEnds {
		readEnd[e] = true
	}
	// group prints into runs of consecutive input runes
	i := 0
	for i < len(obs.Prints) {
		j := i
		for j+1 < len(obs.Prints) {
			a, b := obs.Prints[j], obs.Prints[j+1]
			if a.NRunes == 0 || b.NRunes == 0 || b.TokStart != a.TokStart+a.NRunes {
				break
			}
			if res.Src[b.TokStart] != res.Src[b.TokStart-1]+1 {
				break
			}
			j++
		}
		// run text and which of its runes are raw invalid bytes
		var run []rune
		var raw []bool
		for k := i; k <= j; k++ {
			p := obs.Prints[k]
			for q := 0; q < p.NRunes; q++ {
				in := int(res.Src[p.TokStart+q])
				run = append(run, obs.Toks[p.TokStart+q].R)
				raw = append(raw, in < len(rawFlag) && rawFlag[in])
			}
		}
		// Each Print must be a prefix of the first grapheme cluster of the
		// remaining text segmented afresh (the parser keeps no context across
		// items); a proper prefix only where a read ended. A raw invalid byte
		// is always an item of its own.
		pos := 0
		for k := i; k <= j; k++ {
			p := obs.Prints[k]
			if p.NRunes == 0 {
				continue
			}
			cl, _, _, _ := uniseg.FirstGraphemeClusterInString(string(run[pos:]), -1)
			e := len([]rune(cl))
			switch {
			case p.NRunes > e:
				return "cluster:merged", fmt.Sprintf("Print %q contains more than one grapheme cluster (run %q)", p.Grapheme, string(run)), fmt.Sprintf("%q", p.Grapheme), "one cluster per Print", false
			case p.NRunes < e:
				inRune := int(res.Src[p.TokStart+p.NRunes-1]) + 1
				end := pos + p.NRunes
				// a raw invalid byte (delivered as the rune of its value) may
				// stand alone or cluster like that rune: a boundary next to
				// one is always acceptable
				nextToRaw := raw[end-1] || (end < len(raw) && raw[end])
				if !nextToRaw && !(inRune < len(offs) && readEnd[offs[inRune]]) {
					return "cluster:split-not-at-read-boundary", fmt.Sprintf("Print %q ends inside a grapheme cluster of %q but no read ended there", p.Grapheme, string(run)), fmt.Sprintf("%q", p.Grapheme), "whole cluster", false
				}
			default:
				hasRaw := false
				for q := pos; q < pos+p.NRunes; q++ {
					hasRaw = hasRaw || raw[q]
				}
				if !hasRaw {
					want, ok := widthtab.Lookup(p.Grapheme, widthtab.Unicode)
					if !ok {
						want = uniseg.StringWidth(p.Grapheme)
					}
					if p.Width != want {
						return "width", fmt.Sprintf("Print %q has width %d, expected %d", p.Grapheme, p.Width, want), fmt.Sprint(p.Width), fmt.Sprint(want), false
					}
				}
			}
			pos += p.NRunes
		}
		i = j + 1
	}
	return "", "", "", "", false
}

func clipToks(ts []refparse.Tok) string {
	var sb strings.Builder
	for i, t := range ts {
		if i > 0 {
			sb.WriteString(" ")
		}
		sb.WriteString(t.String())
		if sb.Len() > 1500 {
			sb.WriteString(" \u2026")
			break
		}
	}
	return sb.String()
}

func runCase(w *harness.W, data []byte, chunks []int, kind string, pairs map[string]struct{}) {
	pc := pcase{Hex: hex.EncodeToString(data), Chunks: chunks, Kind: kind}
	w.Begin(pc.Hex)
	key, detail, obs, exp, ts := evalCase(data, chunks, pairs)
	w.End()
	h := fmt.Sprintf("%s|%v", pc.Hex, chunks)
	w.Case(h)
	w.Count("cases_"+kind, 1)
	w.Count("bytes_parsed", int64(len(data)))
	if key == "" {
		if kind != "exhaustive" || len(data) >= 4 {
			w.Sample(pc)
		}
		return
	}
	// re-run rule: a violation must reproduce
	repro := 0
	for i := 0; i < 3; i++ {
		k2, _, _, _, _ := evalCase(data, chunks, nil)
		if k2 == key {
			repro++
		}
	}
	if repro < 3 {
		if ts {
			w.Inconclusive("timing-sensitive-mismatch-not-reproducible")
		} else {
			w.Inconclusive("mismatch-not-reproducible:" + key)
		}
		return
	}
	w.Violation(key, detail, pc, obs, exp)
}

// ---------------------------------------------------------------------------
// grammar generator

var paramVals = []string{"", "0", "1", "2", "10", "65535", "2147483647", "2147483648", "99999999999999999999"}

func genParams(r gen.R, allowColon bool) string {
	n := r.Intn(5)
	if r.Intn(10) == 0 {
		n = r.Range(5, 20)
	}
	var ps []string
	for i := 0; i < n; i++ {
		p := paramVals[r.Intn(len(paramVals))]
		if allowColon && r.Intn(4) == 0 {
			for k := r.Intn(5); k > 0; k-- {
				p += ":" + paramVals[r.Intn(len(paramVals))]
			}
		}
		ps = append(ps, p)
	}
	return strings.Join(ps, ";")
}

func genText(r gen.R) string {
	var sb strings.Builder
	for k := r.Range(1, 6); k > 0; k-- {
		switch r.Intn(6) {
		case 0:
			e := widthtab.Table[r.Intn(len(widthtab.Table))]
			sb.WriteString(e.G)
		case 1:
			e := widthtab.Odd[r.Intn(len(widthtab.Odd))]
			sb.WriteString(e.G)
		case 2:
			sb.WriteString("\ufffd")
		default:
			sb.WriteByte(byte(r.Range(0x20, 0x7e)))
		}
	}
	return sb.String()
}

func genPayload(r gen.R) string {
	var sb strings.Builder
	for k := r.Intn(12); k > 0; k-- {
		switch r.Intn(8) {
		case 0:
			sb.WriteString(genText(r))
		case 1:
			sb.WriteByte(byte(r.Intn(0x18))) // C0 without CAN/SUB/ESC
		case 2:
			sb.WriteByte(0x7f)
		default:
			sb.WriteByte(byte(r.Range(0x20, 0x7e)))
		}
	}
	return sb.String()
}

func genTerm(r gen.R, osc bool) string {
	switch r.Intn(8) {
	case 0:
		if osc {
			return "\x07"
		}
		return "\x1b\\"
	case 1:
		return "\x18"
	case 2:
		return "\x1a"
	case 3:
		return "\x1b" + string(rune(r.Range(0x30, 0x7e)))
	case 4:
		return "" // unterminated (runs into what follows / EOF)
	default:
		return "\x1b\\"
	}
}

func genInter(r gen.R) string {
	var sb strings.Builder
	for k := []int{0, 0, 0, 1, 1, 2, 3}[r.Intn(7)]; k > 0; k-- {
		sb.WriteByte(byte(r.Range(0x20, 0x2f)))
	}
	return sb.String()
}

func genSeq(r gen.R) string {
	malform := func(s string) string {
		if r.Intn(6) != 0 || len(s) < 2 {
			return s
		}
		pos := r.Range(1, len(s)-1)
		ins := []string{"\x00", "\x07", "\x18", "\x1a", "\x1b", "\x7f", ":", "?", "<", " ", "\u00e9", "\x80", "\xff", "\n"}[r.Intn(14)]
		return s[:pos] + ins + s[pos:]
	}
	switch r.Intn(12) {
	case 0:
		return genText(r)
	case 1:
		return string(rune(r.Intn(0x20)))
	case 2: // ESC final
		return malform("\x1b" + genInter(r) + string(rune(r.Range(0x30, 0x7f))))
	case 3: // SS3
		return malform("\x1bO" + string(rune(r.Range(0x20, 0x7e))))
	case 4, 5, 6: // CSI
		priv := []string{"", "", "", "?", ">", "<", "="}[r.Intn(7)]
		return malform("\x1b[" + priv + genParams(r, true) + genInter(r) + string(rune(r.Range(0x40, 0x7e))))
	case 7: // OSC
		return malform("\x1b]" + genPayload(r) + genTerm(r, true))
	case 8: // DCS
		priv := []string{"", "", "?", ">", "="}[r.Intn(5)]
		return malform("\x1bP" + priv + genParams(r, r.Intn(8) == 0) + genInter(r) + string(rune(r.Range(0x40, 0x7e))) + genPayload(r) + genTerm(r, false))
	case 9: // APC
		return malform("\x1b_" + genPayload(r) + genTerm(r, false))
	case 10: // SOS / PM
		return malform("\x1b" + []string{"X", "^"}[r.Intn(2)] + genPayload(r) + genTerm(r, false))
	default:
		return "\x1b\\" // Alt+backslash
	}
}

func genGrammar(r gen.R) []byte {
	var sb strings.Builder
	for k := r.Range(1, 12); k > 0; k-- {
		sb.WriteString(genSeq(r))
	}
	return []byte(sb.String())
}

func (check) Finalize(tier string, m *harness.Merged) string {
	if len(m.Sets["ref_state_class_pairs"]) < 150 {
		return fmt.Sprintf("only %d (reference state, class) pairs exercised", len(m.Sets["ref_state_class_pairs"]))
	}
	return ""
}

func (c check) Replay(w *harness.W, raw json.RawMessage) {
	var pc pcase
	if err := json.Unmarshal(raw, &pc); err != nil {
		fmt.Println("bad case", err)
		return
	}
	data, _ := hex.DecodeString(pc.Hex)
	pairs := map[string]struct{}{}
	key, detail, obs, exp, _ := evalCase(data, pc.Chunks, pairs)
	fmt.Printf("input: %q chunks=%v\nkey=%s\n%s\nobserved: %s\nexpected: %s\n", data, pc.Chunks, key, detail, obs, exp)
	if key != "" {
		w.Violation(key, detail, pc, obs, exp)
		// delta-debug the input (single read) to a small witness
		min := append([]byte(nil), data...)
		test := func(b []byte) bool {
			k, _, _, _, _ := evalCase(b, nil, nil)
			return k == key
		}
		if test(min) {
			for n := 2; len(min) >= 2; {
				chunk := (len(min) + n - 1) / n
				reduced := false
				for i := 0; i < len(min); i += chunk {
					end := i + chunk
					if end > len(min) {
						end = len(min)
					}
					cand := append(append([]byte(nil), min[:i]...), min[end:]...)
					if len(cand) > 0 && test(cand) {
						min = cand
						if n > 2 {
							n--
						}
						reduced = true
						break
					}
				}
				if !reduced {
					if n >= len(min) {
						break
					}
					n *= 2
					if n > len(min) {
						n = len(min)
					}
				}
			}
			k, d, o, e, _ := evalCase(min, nil, nil)
			fmt.Printf("minimised: %q\nkey=%s\n%s\nobserved: %s\nexpected: %s\n", min, k, d, o, e)
		}
	}
	var ps []string
	for p := range pairs {
		ps = append(ps, p)
	}
	sort.Strings(ps)
	_ = ps
}
