// Package c05: the embedded terminal never crashes or hangs on child output
// and keeps its structural invariants (DESIGN.md §3 C05).
package c05

import (
	"encoding/hex"
	"encoding/json"
	"fmt"
	"strings"

	"git.sr.ht/~rockorager/vaxis"
	"git.sr.ht/~rockorager/vaxis/ansi"
	"git.sr.ht/~rockorager/vaxis/widgets/term"

	"verif/internal/gen"
	"verif/internal/harness"
	"verif/internal/refterm"
	"verif/internal/termgen"
	"verif/internal/vxh"
)

type check struct{}

func init() { harness.Register(check{}) }

func (check) ID() string    { return "C05" }
func (check) Level() string { return "exploration" }
func (check) Rule() string {
	return "streams of grammar-generated control sequences over the emulator's whole vocabulary (boundary parameters omitted/0/1/size-1/size/size+1/65535/2^31/20-digit), curated text and raw fuzz bytes, on sizes 1x1..12x8 and 80x24 with resizes between chunks; the state snapshot is checked after every sequence (invariant-at-a-hook); hosted streams are also drawn into an inner window of a Vaxis whose screen is sentinel-filled; real-child runs through StartWithSize with event-heavy output. A case is one stream; distinct = hash of its steps; non-trivial = at least one control sequence"
}
func (check) Assumptions() []string {
	return []string{
		"the tag-guarded hook VerifFeed runs the package's own update on every sequence produced by a real ansi.Parser and drains raised events after each one, as the property's hook clause states",
		"deferred wrap is represented as col == right margin + 1 with the lastCol flag set; that state is accepted",
	}
}

type spec struct {
	Kind string `json:"kind"`
	N    int    `json:"n"`
}

func (check) Plan(tier string, seed int64) []harness.Batch {
	var bs []harness.Batch
	n, nh, nc := 1250, 60, 2
	if tier == "thorough" {
		n, nh, nc = 125000, 3000, 30
	}
	for i := 0; i < 16; i++ {
		s, _ := json.Marshal(spec{Kind: "streams", N: n})
		bs = append(bs, harness.Batch{Name: fmt.Sprintf("streams-%d", i), Seed: seed*1000003 + int64(i), Spec: s, TimeoutS: 1500, CaseTimeoutS: 10})
		s, _ = json.Marshal(spec{Kind: "hosted", N: nh})
		bs = append(bs, harness.Batch{Name: fmt.Sprintf("hosted-%d", i), Seed: seed*1000033 + int64(i), Spec: s, TimeoutS: 1500, CaseTimeoutS: 10})
		s, _ = json.Marshal(spec{Kind: "child", N: nc})
		bs = append(bs, harness.Batch{Name: fmt.Sprintf("child-%d", i), Seed: seed*1000037 + int64(i), Spec: s, TimeoutS: 900, CaseTimeoutS: 60})
	}
	return bs
}

// Step is one step of a stream: bytes for the emulator or a resize.
type Step struct {
	Hex  string `json:"hex,omitempty"`
	Cols int    `json:"cols,omitempty"`
	Rows int    `json:"rows,omitempty"`
}

type streamCase struct {
	Cols   int    `json:"cols"`
	Rows   int    `json:"rows"`
	Hosted bool   `json:"hosted,omitempty"`
	Steps  []Step `json:"steps"`
}

func randSize(r gen.R) (int, int) {
	switch r.Intn(10) {
	case 0:
		return 1, 1
	case 1:
		return 80, 24
	case 2:
		return r.Range(1, 3), r.Range(1, 3)
	default:
		return r.Range(1, 12), r.Range(1, 8)
	}
}

func genStream(r gen.R) streamCase {
	sc := streamCase{}
	sc.Cols, sc.Rows = randSize(r)
	cols, rows := sc.Cols, sc.Rows
	n := r.Range(3, 40)
	for i := 0; i < n; i++ {
		if r.Intn(12) == 0 {
			cols, rows = randSize(r)
			sc.Steps = append(sc.Steps, Step{Cols: cols, Rows: rows})
			continue
		}
		var sb strings.Builder
		for k := r.Range(1, 6); k > 0; k-- {
			sb.WriteString(termgen.Seq(r, cols, rows))
		}
		sc.Steps = append(sc.Steps, Step{Hex: hex.EncodeToString([]byte(sb.String()))})
	}
	return sc
}

func seqName(seq ansi.Sequence) string {
	switch s := seq.(type) {
	case ansi.Print:
		if s.Width > 1 {
			return "print-wide"
		}
		if s.Width == 0 {
			return "print-zero"
		}
		return "print"
	case ansi.C0:
		return fmt.Sprintf("c0-%02x", rune(s))
	case ansi.ESC:
		return "esc:" + string(s.Intermediate) + string(s.Final)
	case ansi.CSI:
		return "csi:" + string(s.Intermediate) + string(s.Final)
	case ansi.OSC:
		p := string(s.Payload)
		if i := strings.IndexByte(p, ';'); i >= 0 {
			p = p[:i]
		}
		if len(p) > 4 {
			p = "other"
		}
		return "osc:" + p
	case ansi.DCS:
		return "dcs:" + string(s.Final)
	case ansi.APC:
		return "apc"
	case ansi.SS3:
		return "ss3"
	}
	return "other"
}

// invariants returns "" or the name of the violated invariant.
func invariants(s term.VerifSnap, wantCols, wantRows int) (string, string) {
	if s.Rows != wantRows {
		return "rows", fmt.Sprintf("grid has %d rows, terminal has %d", s.Rows, wantRows)
	}
	for r, l := range s.RowLens {
		if l != wantCols {
			return "row-length", fmt.Sprintf("row %d has %d cells, terminal width is %d", r, l, wantCols)
		}
	}
	if s.CursorRow < 0 || s.CursorRow >= wantRows {
		return "cursor-row", fmt.Sprintf("cursor row %d outside [0,%d)", s.CursorRow, wantRows)
	}
	if s.CursorCol < 0 || s.CursorCol >= wantCols {
		if !(s.CursorCol == s.Right+1 && s.LastCol && s.CursorCol <= wantCols) {
			return "cursor-col", fmt.Sprintf("cursor col %d outside [0,%d) (lastCol=%v right=%d)", s.CursorCol, wantCols, s.LastCol, s.Right)
		}
	}
	if !(0 <= s.Top && s.Top <= s.Bottom && s.Bottom < wantRows) {
		return "margins-tb", fmt.Sprintf("top %d bottom %d rows %d", s.Top, s.Bottom, wantRows)
	}
	if !(0 <= s.Left && s.Left <= s.Right && s.Right < wantCols) {
		return "margins-lr", fmt.Sprintf("left %d right %d cols %d", s.Left, s.Right, wantCols)
	}
	return "", ""
}

func runStream(w *harness.W, sc streamCase) {
	cj, _ := json.Marshal(sc)
	w.Begin(string(cj))
	defer w.End()
	m, err := term.VerifNew(sc.Cols, sc.Rows)
	if err != nil {
		w.Inconclusive("verifnew-failed")
		return
	}
	defer term.VerifFree(m)
	events := 0
	m.Attach(func(ev vaxis.Event) { events++ })
	cols, rows := sc.Cols, sc.Rows
	nseq := 0
	ctrl := 0
	stop := false
	for si, st := range sc.Steps {
		if stop {
			break
		}
		last := "resize"
		val, stack, panicked := harness.Recover(func() {
			if st.Hex == "" {
				cols, rows = st.Cols, st.Rows
				term.VerifResize(m, cols, rows)
				if inv, d := invariants(term.VerifSnapshot(m, false), cols, rows); inv != "" {
					w.Violation("invariant:"+inv+"@resize", fmt.Sprintf("step %d (resize to %dx%d): %s", si, cols, rows, d), sc, d, "invariants hold after every sequence")
					stop = true
				}
				return
			}
			data, _ := hex.DecodeString(st.Hex)
			term.VerifFeed(m, data, func(seq ansi.Sequence) {
				if stop {
					return
				}
				nseq++
				last = seqName(seq)
				if _, ok := seq.(ansi.Print); !ok {
					ctrl++
				}
				w.Distinct("sequence_kinds", last)
				if nseq%32 == 0 {
					term.VerifTakeReplies(m)
				}
				if inv, d := invariants(term.VerifSnapshot(m, false), cols, rows); inv != "" {
					w.Violation("invariant:"+inv+"@"+last, fmt.Sprintf("step %d after %s: %s", si, last, d), sc, d, "invariants hold after every sequence")
					stop = true
				}
			})
			term.VerifTakeReplies(m)
		})
		if panicked {
			w.ViolationStack("panic:"+harness.PanicKey(val, stack), fmt.Sprintf("step %d: panic in the sequence after %s: %s", si, last, val), sc, val, "no panic", stack)
			stop = true
		}
	}
	w.Count("sequences_checked", int64(nseq))
	w.Count("events_raised", int64(events))
	if ctrl > 0 {
		w.Case(string(cj))
	} else {
		w.Eval(1)
	}
	if nseq > 10 {
		w.Sample(sc)
	}
}

// hosted: the emulator is drawn into an inner window of a host Vaxis whose
// screen is filled with sentinels; nothing outside the window may change.
func runHosted(w *harness.W, r gen.R) {
	sc := genStream(r)
	sc.Hosted = true
	// no resizes through steps: the window size drives the emulator size
	var steps []Step
	for _, s := range sc.Steps {
		if s.Hex != "" {
			steps = append(steps, s)
		}
	}
	sc.Steps = steps
	if sc.Cols > 20 {
		sc.Cols, sc.Rows = 20, 6
	}
	cj, _ := json.Marshal(sc)
	w.Begin(string(cj))
	defer w.End()
	hostCols, hostRows := sc.Cols+4, sc.Rows+3
	sess, err := vxh.Start(hostCols, hostRows, refterm.CapsFromMask(1<<1|1<<9|1<<10), vaxis.Options{}, nil)
	if err != nil {
		w.Inconclusive("host-start-failed")
		return
	}
	if _, ok := sess.Sync(); !ok {
		w.Inconclusive("host-sync-failed")
		return
	}
	defer sess.Close()
	m, err := term.VerifNew(sc.Cols, sc.Rows)
	if err != nil {
		return
	}
	defer term.VerifFree(m)
	m.Focus()
	sentinel := vaxis.Cell{Character: vaxis.Character{Grapheme: "#", Width: 1}, Style: vaxis.Style{Foreground: vaxis.IndexColor(5)}}
	root := sess.Vx.Window()
	last := "start"
	for si, st := range sc.Steps {
		data, _ := hex.DecodeString(st.Hex)
		val, stack, panicked := harness.Recover(func() {
			term.VerifFeed(m, data, func(seq ansi.Sequence) { last = seqName(seq) })
			term.VerifTakeReplies(m)
			root.Fill(sentinel)
			inner := root.New(2, 1, sc.Cols, sc.Rows)
			m.Draw(inner)
			sess.Vx.Render()
		})
		if panicked {
			w.ViolationStack("panic:"+harness.PanicKey(val, stack), fmt.Sprintf("hosted step %d: panic (last completed sequence %s): %s", si, last, val), sc, val, "no panic", stack)
			break
		}
		bad := ""
		sess.Con.With(func() {
			t := sess.Term
			for rr := 0; rr < hostRows && bad == ""; rr++ {
				for cc := 0; cc < hostCols; cc++ {
					inside := rr >= 1 && rr < 1+sc.Rows && cc >= 2 && cc < 2+sc.Cols
					if inside {
						continue
					}
					c := t.Cell(rr, cc)
					if c.G != "#" || c.Poison != "" {
						bad = fmt.Sprintf("host cell (%d,%d) outside the window shows %q (poison %q)", rr, cc, c.G, c.Poison)
						break
					}
				}
			}
		})
		w.Count("hosted_frames", 1)
		if bad != "" {
			w.Violation("draw-escapes-window", fmt.Sprintf("hosted step %d after %s: %s", si, last, bad), sc, bad, "only cells inside the window change")
			break
		}
		if inv, d := invariants(term.VerifSnapshot(m, false), sc.Cols, sc.Rows); inv != "" {
			w.Violation("invariant:"+inv+"@hosted-draw", fmt.Sprintf("hosted step %d (last sequence %s, then Draw): %s", si, last, d), sc, d, "invariants hold")
			break
		}
	}
	w.Case(string(cj))
}

func (c check) Run(w *harness.W, b harness.Batch) {
	var s spec
	json.Unmarshal(b.Spec, &s)
	r := gen.New(b.Seed)
	switch s.Kind {
	case "streams":
		for i := 0; i < s.N; i++ {
			runStream(w, genStream(r))
		}
	case "hosted":
		for i := 0; i < s.N; i++ {
			runHosted(w, gen.New(r.Int63()))
		}
	case "child":
		for i := 0; i < s.N; i++ {
			runChild(w, gen.New(r.Int63()))
		}
	}
}

func (check) Finalize(tier string, m *harness.Merged) string {
	if m.Counts["sequences_checked"] < 1000 {
		return "fewer than 1000 sequences checked"
	}
	return ""
}

func (c check) Replay(w *harness.W, raw json.RawMessage) {
	var sc streamCase
	if err := json.Unmarshal(raw, &sc); err != nil {
		fmt.Println("bad case", err)
		return
	}
	for i, s := range sc.Steps {
		if s.Hex != "" {
			b, _ := hex.DecodeString(s.Hex)
			fmt.Printf("step %d: %q\n", i, b)
		} else {
			fmt.Printf("step %d: resize %dx%d\n", i, s.Cols, s.Rows)
		}
	}
	if sc.Hosted {
		fmt.Println("hosted cases are replayed by re-running their batch")
		return
	}
	runStream(w, sc)
}
