package c05

import (
	"encoding/hex"
	"fmt"
	"os"
	"os/exec"
	"strings"
	"sync"
	"time"

	"git.sr.ht/~rockorager/vaxis"
	"git.sr.ht/~rockorager/vaxis/widgets/term"

	"verif/internal/gen"
	"verif/internal/harness"
)

type childCase struct {
	Bells, Titles, Notifies int
	Text                    int
	SlowHandler             bool
	Hex                     string
}

// runChild drives the real StartWithSize path with a real child process whose
// output raises many events; every raised event must be delivered and the
// terminal must reach EventClosed.
func runChild(w *harness.W, r gen.R) {
	var cc childCase
	var sb strings.Builder
	n := r.Range(1, 40)
	if r.Intn(4) == 0 {
		n = r.Range(100, 1000)
	}
	for i := 0; i < n; i++ {
		switch r.Intn(6) {
		case 0, 1, 2:
			sb.WriteByte(0x07)
			cc.Bells++
		case 3:
			sb.WriteString("\x1b]2;t\x1b\\")
			cc.Titles++
		case 4:
			sb.WriteString("\x1b]9;n\x1b\\")
			cc.Notifies++
		default:
			sb.WriteString("x")
			cc.Text++
		}
	}
	cc.SlowHandler = r.Intn(3) == 0
	cc.Hex = hex.EncodeToString([]byte(sb.String()))
	w.Begin(fmt.Sprintf("child %+v", cc))
	defer w.End()

	self, err := os.Executable()
	if err != nil {
		w.Inconclusive("no-executable")
		return
	}
	m := term.New()
	var mu sync.Mutex
	got := map[string]int{}
	closed := make(chan struct{})
	m.Attach(func(ev vaxis.Event) {
		if cc.SlowHandler {
			time.Sleep(200 * time.Microsecond)
		}
		mu.Lock()
		defer mu.Unlock()
		switch ev.(type) {
		case term.EventBell:
			got["bell"]++
		case term.EventTitle:
			got["title"]++
		case term.EventNotify:
			got["notify"]++
		case term.EventClosed:
			select {
			case <-closed:
			default:
				close(closed)
			}
		case term.EventPanic:
			got["panic"]++
		}
	})
	cmd := exec.Command(self, "--emit", cc.Hex)
	if err := m.StartWithSize(cmd, 40, 10); err != nil {
		w.Inconclusive("start-failed:" + err.Error())
		return
	}
	w.Count("child_runs", 1)
	w.Case(fmt.Sprintf("child|%s|%v", cc.Hex, cc.SlowHandler))
	select {
	case <-closed:
	case <-time.After(20 * time.Second):
		dump := harness.AllStacks()
		if cmd.Process != nil {
			cmd.Process.Kill()
		}
		// wedge rule: the PTY goroutine is parked in the library sending an
		// event that only it can receive
		for _, blk := range strings.Split(dump, "\n\n") {
			if strings.Contains(blk, "widgets/term.(*Model).postEvent") && strings.Contains(blk, "[chan send") {
				mu.Lock()
				obs := fmt.Sprintf("delivered %v of bells=%d titles=%d notifies=%d; PTY goroutine parked in postEvent", got, cc.Bells, cc.Titles, cc.Notifies)
				mu.Unlock()
				w.ViolationStack("stall:chan-send@vaxis/widgets/term.(*Model).postEvent", "child output stalled the emulator: raised events are posted to a channel only the posting goroutine drains", cc, obs, "EventClosed after all events delivered", blk)
				return
			}
		}
		w.Inconclusive("child-not-closed-without-corroboration")
		return
	}
	mu.Lock()
	defer mu.Unlock()
	if got["bell"] != cc.Bells || got["title"] != cc.Titles || got["notify"] != cc.Notifies {
		w.Violation("events:count-mismatch", "raised events lost or duplicated", cc, fmt.Sprint(got), fmt.Sprintf("bell=%d title=%d notify=%d", cc.Bells, cc.Titles, cc.Notifies))
	}
	if got["panic"] > 0 {
		w.Violation("events:panic-event", "emulator reported a panic event", cc, fmt.Sprint(got), "no panic")
	}
	w.Count("child_events_delivered", int64(got["bell"]+got["title"]+got["notify"]))
}
