// Package c16: soft-wrapping preserves the text and respects the width
// (DESIGN.md \u00a73 C16).
package c16

import (
	"encoding/json"
	"fmt"
	"math"
	"strings"
	"unicode"

	"git.sr.ht/~rockorager/vaxis"
	"git.sr.ht/~rockorager/vaxis/vxfw"
	"git.sr.ht/~rockorager/vaxis/vxfw/richtext"
	text2 "git.sr.ht/~rockorager/vaxis/vxfw/text"
	"github.com/rivo/uniseg"

	"verif/internal/gen"
	"verif/internal/harness"
	"verif/internal/widthtab"
)

type check struct{}

func init() { harness.Register(check{}) }

func (check) ID() string    { return "C16" }
func (check) Level() string { return "exploration" }
func (check) Rule() string {
	return "bounded-exhaustive: all strings up to length 5 (quick) / 7 (thorough) over an alphabet with one representative per relevant UAX #14 class (AL a b, SP space, HY -, BK newline, ID wide CJK, CM e+combining acute, OP (, CL ), GL no-break space) x widths 0..7, for the plain soft-wrap scanner, the rich soft-wrap scanner (unique style per cell) and the hard-wrap scanner, plus the Text/RichText widgets drawn with the same constraints; random texts of 50-2000 graphemes x widths 1..100. Trace oracle per (text, width): step bound 2n+2, line width, intact letter runs, conservation of non-whitespace graphemes (and styles), hard breaks, rows of the drawn surface equal the emitted lines. A case is (text, width, scanner); distinct = hash of it"
}
func (check) Assumptions() []string {
	return []string{
		"ctx.Characters = vaxis.Characters; widths of the alphabet checked against widthtab",
		"whitespace = graphemes whose last rune is unicode.IsSpace (includes newline and no-break space)",
		"width 0 is checked for termination and panics only (nothing can be shown in zero columns)",
	}
}

type spec struct {
	Kind string `json:"kind"`
	Part int    `json:"part"`
	Of   int    `json:"of"`
	Len  int    `json:"len"`
	N    int    `json:"n"`
}

func (check) Plan(tier string, seed int64) []harness.Batch {
	var bs []harness.Batch
	L, n := 5, 30
	if tier == "thorough" {
		L, n = 7, 3000
	}
	for p := 0; p < 16; p++ {
		s, _ := json.Marshal(spec{Kind: "exhaustive", Part: p, Of: 16, Len: L})
		bs = append(bs, harness.Batch{Name: fmt.Sprintf("exhaustive-%d", p), Seed: seed, Spec: s, TimeoutS: 3000, CaseTimeoutS: 20})
		s, _ = json.Marshal(spec{Kind: "random", N: n})
		bs = append(bs, harness.Batch{Name: fmt.Sprintf("random-%d", p), Seed: seed*53 + int64(p), Spec: s, TimeoutS: 3000, CaseTimeoutS: 20})
	}
	return bs
}

var alphabet = []string{"a", "b", " ", "-", "\n", "\u4f60", "e\u0301", "(", ")", "\u00a0"}

type wcase struct {
	Text    string `json:"text"`
	Width   int    `json:"width"`
	Scanner string `json:"scanner"`
	// Measure: "" = the draw context measures with vaxis.Characters;
	// otherwise what its Characters function does differently
	Measure string `json:"context_measures,omitempty"`
}

func isSpaceG(g string) bool {
	r := []rune(g)
	return len(r) > 0 && unicode.IsSpace(r[len(r)-1])
}

func isLetterG(g string) bool {
	r := []rune(g)
	return len(r) > 0 && unicode.IsLetter(r[0]) && !(r[0] >= 0x2E80) // CJK ideographs break anywhere
}

func gw(c vaxis.Character) int { return c.Width }

var ctx = vxfw.DrawContext{Characters: vaxis.Characters}

// line is one emitted line as graphemes (+ style ids for rich text).
type line struct {
	g  []vaxis.Character
	id []int
}

func judge(in []vaxis.Character, ids []int, lines []line, width int, stepsOK bool) (string, string) {
	if !stepsOK {
		return "termination:step-bound", "the scanner returned true more than 2n+2 times"
	}
	if width == 0 {
		return "", ""
	}
	// 2. width
	for li, l := range lines {
		end := len(l.g)
		for end > 0 && isSpaceG(l.g[end-1].Grapheme) {
			end--
		}
		w := 0
		visible := 0
		for _, c := range l.g[:end] {
			w += gw(c)
			if gw(c) > 0 {
				visible++
			}
		}
		if w > width && visible > 1 {
			return "width:line-too-wide", fmt.Sprintf("line %d %q has width %d > %d with %d graphemes", li, text(l.g), w, width, end)
		}
	}
	// 4. conservation
	var want, got []string
	var wantID, gotID []int
	for i, c := range in {
		if !isSpaceG(c.Grapheme) {
			want = append(want, c.Grapheme)
			if ids != nil {
				wantID = append(wantID, ids[i])
			}
		}
	}
	for _, l := range lines {
		for i, c := range l.g {
			if !isSpaceG(c.Grapheme) {
				got = append(got, c.Grapheme)
				if ids != nil {
					gotID = append(gotID, l.id[i])
				}
			}
		}
	}
	if strings.Join(want, "\x00") != strings.Join(got, "\x00") {
		kind := "altered"
		if len(got) < len(want) {
			kind = "lost"
		} else if len(got) > len(want) {
			kind = "duplicated"
		}
		return "conservation:" + kind, fmt.Sprintf("non-whitespace graphemes of the output %q differ from the input's %q", strings.Join(got, ""), strings.Join(want, ""))
	}
	if ids != nil && fmt.Sprint(wantID) != fmt.Sprint(gotID) {
		return "conservation:styles", "graphemes kept their order but not their styles"
	}
	// 3. letter runs that fit stay on one line
	// positions of non-space graphemes in the output, by line
	lineOf := []int{}
	for li, l := range lines {
		for _, c := range l.g {
			if !isSpaceG(c.Grapheme) {
				lineOf = append(lineOf, li)
			}
		}
	}
	k := 0 // index among non-space graphemes
	for i := 0; i < len(in); {
		if isSpaceG(in[i].Grapheme) {
			i++
			continue
		}
		if !isLetterG(in[i].Grapheme) {
			i++
			k++
			continue
		}
		j := i
		w := 0
		for j < len(in) && isLetterG(in[j].Grapheme) {
			w += gw(in[j])
			j++
		}
		n := j - i
		if w <= width && n > 1 && lineOf[k] != lineOf[k+n-1] {
			// where is the run inside its UAX #14 line segment?
			where := segmentPosition(in, i, width)
			return "split:letter-run:" + where, fmt.Sprintf("the run of letters %q (width %d) fits on a line of %d columns but was split (%s)", text(in[i:j]), w, width, where)
		}
		k += n
		i = j
	}
	// 5. hard breaks: every one ends the current line, so two graphemes with
	// h breaks between them are at least h lines apart, h leading breaks put
	// the first grapheme on line h or later, and h trailing breaks end h lines
	k = 0
	prevNonSpaceLine := -1
	breaks := 0
	for _, c := range in {
		if strings.ContainsAny(c.Grapheme, "\n\r") {
			breaks++
			continue
		}
		if isSpaceG(c.Grapheme) {
			continue
		}
		if breaks > 0 {
			if prevNonSpaceLine >= 0 && lineOf[k] == prevNonSpaceLine {
				return "hard-break:shared-line", "two graphemes separated by a hard line break share a line"
			}
			from := prevNonSpaceLine
			if from < 0 {
				from = 0
			}
			if lineOf[k]-from < breaks {
				return "hard-break:line-not-ended", fmt.Sprintf("%d hard line breaks precede %q but it is only %d line(s) further down: a break did not end its line", breaks, c.Grapheme, lineOf[k]-from)
			}
		}
		breaks = 0
		prevNonSpaceLine = lineOf[k]
		k++
	}
	if breaks > 0 {
		need := breaks
		if prevNonSpaceLine >= 0 {
			need = prevNonSpaceLine + breaks
		}
		if len(lines) < need {
			return "hard-break:line-not-ended", fmt.Sprintf("the text ends with %d hard line breaks but only %d lines were emitted (last grapheme on line %d)", breaks, len(lines), prevNonSpaceLine)
		}
	}
	return "", ""
}

// segmentPosition classifies grapheme i: "at-segment-start" when a UAX #14 line
// segment starts there, "inside-overlong-segment" when it lies inside a
// segment (no break opportunity before it) that is wider than the line.
func segmentPosition(in []vaxis.Character, i, width int) string {
	full := text(in)
	// byte offset of grapheme i
	off := 0
	for _, c := range in[:i] {
		off += len(c.Grapheme)
	}
	pos := 0
	rest := full
	state := -1
	for len(rest) > 0 {
		var seg string
		seg, rest, _, state = uniseg.FirstLineSegmentInString(rest, state)
		if off == pos {
			return "at-segment-start"
		}
		if off > pos && off < pos+len(seg) {
			sw := 0
			for _, c := range curChars(strings.TrimRightFunc(seg, unicode.IsSpace)) {
				sw += c.Width
			}
			if sw > width {
				return "inside-overlong-segment"
			}
			return "inside-fitting-segment"
		}
		pos += len(seg)
	}
	return "unknown"
}

func text(cs []vaxis.Character) string {
	var sb strings.Builder
	for _, c := range cs {
		sb.WriteString(c.Grapheme)
	}
	return sb.String()
}

// curChars is the measuring function of the draw context in use.
var curChars = vaxis.Characters

// altCharacters is a measuring function as an application on a terminal
// without grapheme clustering supplies it (vxfw.App re-measures every
// cluster): the same clusters, but a base letter with a combining mark counts
// two columns.
func altCharacters(s string) []vaxis.Character {
	cs := vaxis.Characters(s)
	for i := range cs {
		if r := []rune(cs[i].Grapheme); len(r) > 1 && cs[i].Width == 1 {
			cs[i].Width = 2
		}
	}
	return cs
}

func runPlain(w *harness.W, s string, width int) {
	runPlainWith(w, s, width, vaxis.Characters, "")
}

func runPlainWith(w *harness.W, s string, width int, chars func(string) []vaxis.Character, name string) {
	curChars = chars
	defer func() { curChars = vaxis.Characters }()
	c := vxfw.DrawContext{Characters: chars}
	wc := wcase{Text: s, Width: width, Scanner: "plain-softwrap", Measure: name}
	in := chars(s)
	var lines []line
	steps := 0
	ok := true
	val, stack, panicked := harness.Recover(func() {
		sc := text2.NewSoftwrapScanner(s, uint16(width))
		for sc.Scan(c) {
			steps++
			if steps > 2*len(in)+2 {
				ok = false
				return
			}
			lines = append(lines, line{g: chars(sc.Text())})
		}
	})
	finish(w, wc, in, nil, lines, ok, val, stack, panicked)
	if !panicked && ok && width > 0 {
		drawCheck(w, wc, lines)
	}
}

func runRich(w *harness.W, s string, width int) {
	wc := wcase{Text: s, Width: width, Scanner: "rich-softwrap"}
	in := vaxis.Characters(s)
	cells := make([]vaxis.Cell, len(in))
	ids := make([]int, len(in))
	for i, c := range in {
		cells[i] = vaxis.Cell{Character: c, Style: vaxis.Style{Foreground: vaxis.RGBColor(uint8(i>>16), uint8(i>>8), uint8(i))}}
		ids[i] = i
	}
	var lines []line
	steps := 0
	ok := true
	val, stack, panicked := harness.Recover(func() {
		sc := richtext.NewSoftwrapScanner(cells, uint16(width))
		for sc.Scan() {
			steps++
			if steps > 2*len(in)+2 {
				ok = false
				return
			}
			var l line
			for _, c := range sc.Text() {
				l.g = append(l.g, c.Character)
				p := c.Style.Foreground.Params()
				id := -1
				if len(p) == 3 {
					id = int(p[0])<<16 | int(p[1])<<8 | int(p[2])
				}
				l.id = append(l.id, id)
			}
			lines = append(lines, l)
		}
	})
	finish(w, wc, in, ids, lines, ok, val, stack, panicked)
	if !panicked && ok && width > 0 {
		// the caller's cells are the scanner's input, not its scratch space
		for i, c := range in {
			if cells[i].Character != c {
				w.Violation("rich-softwrap:input-modified", fmt.Sprintf("scanning %q at width %d changed input cell %d from %q to %q", s, width, i, c.Grapheme, cells[i].Grapheme), wc, cells[i].Grapheme, c.Grapheme)
				return
			}
		}
		richDrawCheck(w, wc, in, lines)
	}
}

// richDrawCheck: RichText.Draw rows (graphemes and their styles) equal the
// lines the scanner emits on fresh input.
func richDrawCheck(w *harness.W, wc wcase, in []vaxis.Character, lines []line) {
	if len(lines) == 0 || len(lines) > 200 {
		return
	}
	segs := make([]vaxis.Segment, len(in))
	for i, c := range in {
		segs[i] = vaxis.Segment{Text: c.Grapheme, Style: vaxis.Style{Foreground: vaxis.RGBColor(uint8(i>>16), uint8(i>>8), uint8(i))}}
	}
	t := richtext.New(segs)
	dctx := vxfw.DrawContext{Max: vxfw.Size{Width: uint16(wc.Width), Height: uint16(len(lines) + 5)}, Characters: vaxis.Characters}
	var sf vxfw.Surface
	val, stack, panicked := harness.Recover(func() { sf, _ = t.Draw(dctx) })
	w.Count("rich_draws", 1)
	if panicked {
		w.ViolationStack("panic:"+harness.PanicKey(val, stack), "RichText.Draw panicked: "+val, wc, val, "no panic", stack)
		return
	}
	// segments of one grapheme each may segment differently from the whole
	// string only where graphemes merge; the alphabet is non-merging
	if int(sf.Size.Height) != len(lines) {
		w.Violation("rich-draw:rows", fmt.Sprintf("RichText.Draw of %q at width %d has %d rows, the scanner emits %d lines", wc.Text, wc.Width, sf.Size.Height, len(lines)), wc, fmt.Sprint(sf.Size.Height), fmt.Sprint(len(lines)))
		return
	}
	for r, l := range lines {
		col := 0
		for k, c := range l.g {
			if isSpaceG(c.Grapheme) || c.Width == 0 {
				col += c.Width
				continue
			}
			if col+c.Width > int(sf.Size.Width) && col == 0 && c.Width > wc.Width {
				// a single grapheme wider than the line: its line is emitted
				// and drawn all the same (the cell holds it, the renderer
				// clips it)
				if sf.Size.Width > 0 {
					if cell := sf.Buffer[r*int(sf.Size.Width)]; cell.Grapheme != c.Grapheme {
						w.Violation("rich-draw:row-content:over-wide-grapheme", fmt.Sprintf("row %d of RichText.Draw(%q, width %d) shows %q, the emitted line is the single grapheme %q", r, wc.Text, wc.Width, cell.Grapheme, c.Grapheme), wc, cell.Grapheme, c.Grapheme)
						return
					}
					w.Count("over_wide_graphemes_drawn", 1)
				}
				break
			}
			if col+c.Width > int(sf.Size.Width) {
				w.Violation("rich-draw:line-cut-off", fmt.Sprintf("row %d of RichText.Draw(%q, width %d): the surface is %d wide, %q of the emitted line would start at column %d", r, wc.Text, wc.Width, sf.Size.Width, c.Grapheme, col), wc, fmt.Sprint(sf.Size.Width), "a surface as wide as its widest line")
				return
			}
			cell := sf.Buffer[r*int(sf.Size.Width)+col]
			id := -1
			if p := cell.Style.Foreground.Params(); len(p) == 3 {
				id = int(p[0])<<16 | int(p[1])<<8 | int(p[2])
			}
			if cell.Grapheme != c.Grapheme || (k < len(l.id) && id != l.id[k]) {
				w.Violation("rich-draw:row-content", fmt.Sprintf("row %d of RichText.Draw(%q, width %d) shows %q (style id %d) at column %d, the emitted line has %q (style id %d)", r, wc.Text, wc.Width, cell.Grapheme, id, col, c.Grapheme, l.id[k]), wc, cell.Grapheme, c.Grapheme)
				return
			}
			col += c.Width
		}
	}
}

func runHard(w *harness.W, s string) {
	wc := wcase{Text: s, Width: 0, Scanner: "rich-hardwrap"}
	in := vaxis.Characters(s)
	cells := make([]vaxis.Cell, len(in))
	for i, c := range in {
		cells[i] = vaxis.Cell{Character: c}
	}
	var lines []line
	steps := 0
	ok := true
	val, stack, panicked := harness.Recover(func() {
		sc := richtext.NewHardwrapScanner(cells)
		for sc.Scan() {
			steps++
			if steps > 2*len(in)+2 {
				ok = false
				return
			}
			var l line
			for _, c := range sc.Line() {
				l.g = append(l.g, c.Character)
			}
			lines = append(lines, l)
		}
	})
	// hard wrap: conservation + hard breaks (width unbounded)
	finish(w, wc, in, nil, lines, ok, val, stack, panicked)
}

func finish(w *harness.W, wc wcase, in []vaxis.Character, ids []int, lines []line, ok bool, val, stack string, panicked bool) {
	w.Case(fmt.Sprintf("%s|%s|%d|%s", wc.Scanner, wc.Measure, wc.Width, wc.Text))
	w.Count("scans_"+wc.Scanner, 1)
	if panicked {
		w.ViolationStack("panic:"+harness.PanicKey(val, stack), fmt.Sprintf("%s panicked on %q at width %d: %s", wc.Scanner, wc.Text, wc.Width, val), wc, val, "no panic", stack)
		return
	}
	width := wc.Width
	if wc.Scanner == "rich-hardwrap" {
		width = math.MaxInt32
	}
	if key, detail := judge(in, ids, lines, width, ok); key != "" {
		var ls []string
		for _, l := range lines {
			ls = append(ls, fmt.Sprintf("%q", text(l.g)))
		}
		w.Violation(wc.Scanner+":"+key, fmt.Sprintf("%s of %q at width %d: %s", wc.Scanner, wc.Text, wc.Width, detail), wc, strings.Join(ls, " | "), "see statement")
	}
}

// drawCheck: Text.Draw rows equal the emitted lines, one per row.
func drawCheck(w *harness.W, wc wcase, lines []line) {
	if len(lines) == 0 || len(lines) > 200 {
		return
	}
	t := text2.New(wc.Text)
	dctx := vxfw.DrawContext{Max: vxfw.Size{Width: uint16(wc.Width), Height: uint16(len(lines) + 5)}, Characters: curChars}
	var s vxfw.Surface
	val, stack, panicked := harness.Recover(func() { s, _ = t.Draw(dctx) })
	w.Count("draws", 1)
	if panicked {
		w.ViolationStack("panic:"+harness.PanicKey(val, stack), "Text.Draw panicked: "+val, wc, val, "no panic", stack)
		return
	}
	if int(s.Size.Height) != len(lines) {
		w.Violation("draw:rows", fmt.Sprintf("Text.Draw of %q at width %d has %d rows, the scanner emits %d lines", wc.Text, wc.Width, s.Size.Height, len(lines)), wc, fmt.Sprint(s.Size.Height), fmt.Sprint(len(lines)))
		return
	}
	for r, l := range lines {
		col := 0
		for _, c := range l.g {
			if isSpaceG(c.Grapheme) || c.Width == 0 {
				col += c.Width
				continue
			}
			if col+c.Width > int(s.Size.Width) {
				if col > 0 || c.Width <= wc.Width {
					w.Violation("draw:line-cut-off", fmt.Sprintf("row %d of Text.Draw(%q, width %d): the surface is %d wide, %q of the emitted line would start at column %d", r, wc.Text, wc.Width, s.Size.Width, c.Grapheme, col), wc, fmt.Sprint(s.Size.Width), "a surface as wide as its widest line")
					return
				}
				if s.Size.Width > 0 {
					if cell := s.Buffer[r*int(s.Size.Width)]; cell.Grapheme != c.Grapheme {
						w.Violation("draw:row-content:over-wide-grapheme", fmt.Sprintf("row %d of Text.Draw(%q, width %d) shows %q, the emitted line is the single grapheme %q", r, wc.Text, wc.Width, cell.Grapheme, c.Grapheme), wc, cell.Grapheme, c.Grapheme)
						return
					}
					w.Count("over_wide_graphemes_drawn", 1)
				}
				break
			}
			cell := s.Buffer[r*int(s.Size.Width)+col]
			if cell.Grapheme != c.Grapheme {
				w.Violation("draw:row-content", fmt.Sprintf("row %d of Text.Draw(%q, width %d) shows %q at column %d, the emitted line has %q", r, wc.Text, wc.Width, cell.Grapheme, col, c.Grapheme), wc, cell.Grapheme, c.Grapheme)
				return
			}
			col += c.Width
		}
	}
}

func (c check) Run(w *harness.W, b harness.Batch) {
	var s spec
	json.Unmarshal(b.Spec, &s)
	r := gen.New(b.Seed)
	// widths of the alphabet against the table
	for _, g := range alphabet {
		if tw, ok := widthtab.Lookup(g, widthtab.Unicode); ok && !isSpaceG(g) {
			if cs := vaxis.Characters(g); len(cs) != 1 || cs[0].Width != tw {
				w.Violation("alphabet-width", fmt.Sprintf("Characters(%q) = %v, table width %d", g, cs, tw), g, fmt.Sprint(cs), fmt.Sprint(tw))
			}
		}
	}
	switch s.Kind {
	case "exhaustive":
		n := len(alphabet)
		k := 0
		for l := 1; l <= s.Len; l++ {
			cnt := 1
			for i := 0; i < l; i++ {
				cnt *= n
			}
			idx := make([]int, l)
			for q := 0; q < cnt; q++ {
				k++
				if k%s.Of == s.Part {
					var sb strings.Builder
					for _, x := range idx {
						sb.WriteString(alphabet[x])
					}
					str := sb.String()
					w.Begin(fmt.Sprintf("%q", str))
					for width := 0; width <= 7; width++ {
						runPlain(w, str, width)
						runRich(w, str, width)
						if l <= 4 {
							// the draw context measures differently from vaxis.Characters
							runPlainWith(w, str, width, altCharacters, "a base letter with a combining mark counts two columns")
						}
					}
					runHard(w, str)
					w.End()
					if q%9973 == 0 {
						w.Sample(wcase{Text: str, Width: 3, Scanner: "plain-softwrap"})
					}
				}
				for j := l - 1; j >= 0; j-- {
					idx[j]++
					if idx[j] < n {
						break
					}
					idx[j] = 0
				}
			}
		}
		w.Count("exhaustive_spaces", 1)
	case "random":
		words := []string{"hello", "wor-ld", "\u4f60\u597d", "(paren)", "e\u0301", "a", "  ", "\n", "x y", "long-unbreakable-word-without-spaces", "\u597d", " ", "-", "\n\n"}
		for i := 0; i < s.N; i++ {
			var sb strings.Builder
			for n := r.Range(10, 400); n > 0; n-- {
				sb.WriteString(words[r.Intn(len(words))])
				if r.Intn(3) != 0 {
					sb.WriteString(" ")
				}
			}
			str := sb.String()
			width := r.Range(1, 100)
			w.Begin(fmt.Sprintf("%d|%q", width, str))
			runPlain(w, str, width)
			runRich(w, str, width)
			w.End()
		}
	}
}

func (check) Finalize(tier string, m *harness.Merged) string {
	if m.Counts["scans_plain-softwrap"] == 0 || m.Counts["scans_rich-softwrap"] == 0 || m.Counts["draws"] == 0 {
		return "a scanner was never exercised"
	}
	return ""
}
