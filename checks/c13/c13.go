// Package c13: keys, pastes and mouse events forwarded into the embedded
// terminal arrive intact (DESIGN.md \u00a73 C13).
package c13

import (
	"encoding/json"
	"fmt"
	"strings"
	"unicode"

	"git.sr.ht/~rockorager/vaxis"
	"git.sr.ht/~rockorager/vaxis/widgets/term"

	"verif/internal/evp"
	"verif/internal/harness"
)

type check struct{}

func init() { harness.Register(check{}) }

func (check) ID() string    { return "C13" }
func (check) Level() string { return "exploration" }
func (check) Rule() string {
	return "exhaustive table: every named key and printable ASCII x the 8 Shift/Alt/Ctrl combinations x DECCKM x DECKPAM; every mouse button x press/release/motion x positions {0,1,79,222,223,1000} x the 16 combinations of mouse modes 1000/1002/1003/1006 x bracketed-paste mode. Each event is handed to Model.Update with the PTY replaced by a pipe; the bytes written are re-parsed by a real Vaxis input pipeline and the resulting event compared with the original (round trip), and the gating rules are checked on whether anything was written. distinct = hash of (event, modes)"
}
func (check) Assumptions() []string {
	return []string{
		"key domain = chords the xterm legacy encoding expresses and the library's legacy decoder can tell apart (C09's unambiguous set); F13+ excluded (xterm encodes them as modified F1-F12)",
		"child modes are set by feeding the real CSI ? .. h/l, ESC = / ESC > sequences to the emulator",
		"mouse modifiers are not part of the statement and are not compared",
	}
}

type spec struct {
	Kind string `json:"kind"`
	Part int    `json:"part"`
	Of   int    `json:"of"`
}

func (check) Plan(tier string, seed int64) []harness.Batch {
	var bs []harness.Batch
	for p := 0; p < 8; p++ {
		s, _ := json.Marshal(spec{Kind: "keys", Part: p, Of: 8})
		bs = append(bs, harness.Batch{Name: fmt.Sprintf("keys-%d", p), Seed: seed, Spec: s, TimeoutS: 1500, CaseTimeoutS: 120})
		s, _ = json.Marshal(spec{Kind: "mouse", Part: p, Of: 8})
		bs = append(bs, harness.Batch{Name: fmt.Sprintf("mouse-%d", p), Seed: seed, Spec: s, TimeoutS: 1500, CaseTimeoutS: 120})
	}
	return bs
}

const (
	mShift = 1
	mAlt   = 2
	mCtrl  = 4
)

type keyCase struct {
	Name    string `json:"key"`
	Keycode rune   `json:"keycode"`
	Mods    int    `json:"mods"`
	Text    string `json:"text,omitempty"`
	DECCKM  bool   `json:"decckm"`
	DECKPAM bool   `json:"deckpam"`
	Written string `json:"written,omitempty"`
	Locks   string `json:"locks,omitempty"`
	// EventType of the forwarded key: "" = press
	EventType string `json:"event_type,omitempty"`
	Between   string `json:"between_modes_and_key,omitempty"`
	// AfterRIS: DECCKM and DECKPAM were set, then RIS (ESC c) was received
	AfterRIS bool `json:"modes_set_then_full_reset,omitempty"`
}

var named = []struct {
	name   string
	code   rune
	cursor bool
}{
	{"Up", vaxis.KeyUp, true}, {"Down", vaxis.KeyDown, true}, {"Right", vaxis.KeyRight, true}, {"Left", vaxis.KeyLeft, true},
	{"Home", vaxis.KeyHome, true}, {"End", vaxis.KeyEnd, true},
	{"Insert", vaxis.KeyInsert, false}, {"Delete", vaxis.KeyDelete, false}, {"Page_Up", vaxis.KeyPgUp, false}, {"Page_Down", vaxis.KeyPgDown, false},
	{"F1", vaxis.KeyF01, false}, {"F2", vaxis.KeyF02, false}, {"F3", vaxis.KeyF03, false}, {"F4", vaxis.KeyF04, false}, {"F5", vaxis.KeyF05, false},
	{"F6", vaxis.KeyF06, false}, {"F7", vaxis.KeyF07, false}, {"F8", vaxis.KeyF08, false}, {"F9", vaxis.KeyF09, false}, {"F10", vaxis.KeyF10, false},
	{"F11", vaxis.KeyF11, false}, {"F12", vaxis.KeyF12, false},
}

func keyCases() []keyCase {
	var out []keyCase
	for _, ckm := range []bool{false, true} {
		for _, kpam := range []bool{false, true} {
			add := func(name string, code rune, mods int, text string) {
				out = append(out, keyCase{Name: name, Keycode: code, Mods: mods, Text: text, DECCKM: ckm, DECKPAM: kpam})
			}
			for _, n := range named {
				for mods := 0; mods < 8; mods++ {
					if n.name == "F3" && mods == 0 {
						// CSI R / SS3 R: fine; keep
					}
					add(n.name, n.code, mods, "")
				}
			}
			// printable ASCII
			for c := rune(0x20); c < 0x7f; c++ {
				switch {
				case unicode.IsUpper(c):
					add("Shift+"+string(unicode.ToLower(c)), unicode.ToLower(c), mShift, string(c))
				default:
					add(string(c), c, 0, string(c))
				}
				// Ctrl+letter (not colliding with Tab/Enter/Backspace/Esc)
				if unicode.IsLower(c) && c != 'i' && c != 'm' && c != 'h' {
					add("Ctrl+"+string(c), c, mCtrl, "")
				}
				// Alt+lowercase/digit/punctuation the legacy encoding can carry
				if c >= 0x30 && !unicode.IsUpper(c) && !strings.ContainsRune("OPX[]^_\\", c) {
					add("Alt+"+string(c), c, mAlt, "")
				}
			}
			// the other control codes of the 0x40 column (NUL, FS, GS, RS, US)
			for _, c := range "@\\]^_" {
				add("Ctrl+"+string(c), c, mCtrl, "")
			}
			add("Tab", vaxis.KeyTab, 0, "")
			add("Shift+Tab", vaxis.KeyTab, mShift, "")
			add("Enter", vaxis.KeyEnter, 0, "")
			add("BackSpace", vaxis.KeyBackspace, 0, "")
			add("Alt+BackSpace", vaxis.KeyBackspace, mAlt, "")
		}
	}
	return out
}

var setModesCalls int

// setModes sends the mode changes; every other call merges adjacent DECSET /
// DECRST sequences into one sequence with several parameters (CSI ? a;b;c l),
// as applications do when they leave.
func setModes(m *term.Model, seqs ...string) {
	setModesCalls++
	if setModesCalls%2 == 0 {
		var merged []string
		for _, q := range seqs {
			if n := len(merged); n > 0 && strings.HasPrefix(q, "\x1b[?") && strings.HasPrefix(merged[n-1], "\x1b[?") && q[len(q)-1] == merged[n-1][len(merged[n-1])-1] {
				prev := merged[n-1]
				merged[n-1] = prev[:len(prev)-1] + ";" + q[3:]
				continue
			}
			merged = append(merged, q)
		}
		seqs = merged
	}
	term.VerifFeed(m, []byte(strings.Join(seqs, "")), nil)
	term.VerifTakeReplies(m)
}

func onoff(mode int, on bool) string {
	if on {
		return fmt.Sprintf("\x1b[?%dh", mode)
	}
	return fmt.Sprintf("\x1b[?%dl", mode)
}

func runKeys(w *harness.W, s spec) {
	p, err := evp.New(0, vaxis.Options{})
	if err != nil {
		w.Inconclusive("pipe-start-failed")
		return
	}
	defer p.Close()
	m, err := term.VerifNew(80, 24)
	if err != nil {
		w.Inconclusive("verifnew-failed")
		return
	}
	defer term.VerifFree(m)
	cases := keyCases()
	var mine []keyCase
	for i, c := range cases {
		if i%s.Of == s.Part {
			mine = append(mine, c)
		}
	}
	const group = 50
	for off := 0; off < len(mine); off += group {
		end := off + group
		if end > len(mine) {
			end = len(mine)
		}
		var raw [][]byte
		for i := off; i < end; i++ {
			kc := &mine[i]
			kp := "\x1b>"
			if kc.DECKPAM {
				kp = "\x1b="
			}
			setModes(m, onoff(1, kc.DECCKM), kp)
			if i%11 == 5 {
				// a full reset (RIS, what `reset` emits after a full-screen
				// program died) puts every input mode back to its default
				setModes(m, onoff(1, true), "\x1b=", "\x1bc")
				kc.DECCKM, kc.DECKPAM = false, false
				kc.AfterRIS = true
			}
			// things a child does between choosing its modes and reading a key
			// that must not touch the cursor-key / keypad modes
			between := []string{"", "\x1b8", "\x1b7\x1b8", "\x1b[s\x1b[u", "\x1b[?6h\x1b7\x1b[?6l\x1b8", "\x1b[?1049h\x1b[?1049l", "\x1b[2;5r\x1b[r", "\x1b[4h\x1b[4l"}[i%8]
			if between != "" {
				term.VerifFeed(m, []byte(between), nil)
				term.VerifTakeReplies(m)
				kc.Between = fmt.Sprintf("%q", between)
			}
			k := vaxis.Key{Keycode: kc.Keycode, Modifiers: vaxis.ModifierMask(kc.Mods), Text: kc.Text}
			// a held key (repeat) and a key delivered inside a paste are keys too
			switch (i / 3) % 4 {
			case 1:
				k.EventType = vaxis.EventRepeat
				kc.EventType = "repeat"
			case 2:
				k.EventType = vaxis.EventPaste
				kc.EventType = "paste"
			}
			// lock states reported by a host speaking the kitty protocol are not
			// part of the chord: same bytes with Caps Lock / Num Lock on
			if kc.Keycode >= 0x7f || kc.Keycode < 0x20 {
				switch i % 3 {
				case 1:
					k.Modifiers |= vaxis.ModCapsLock
					kc.Locks = "caps"
				case 2:
					k.Modifiers |= vaxis.ModNumLock
					kc.Locks = "num"
				}
			}
			if kc.Mods&mShift != 0 && kc.Text != "" {
				k.ShiftedCode = []rune(kc.Text)[0]
			}
			val, stack, panicked := harness.Recover(func() { m.Update(k) })
			if panicked {
				w.ViolationStack("panic:"+harness.PanicKey(val, stack), "Update panicked", kc, val, "no panic", stack)
				return
			}
			b := term.VerifTakeReplies(m)
			kc.Written = fmt.Sprintf("%q", b)
			raw = append(raw, b)
		}
		w.Begin(fmt.Sprintf("keys %d..%d", off, end))
		evs, ok := p.Decode(raw)
		w.End()
		if !ok {
			w.Violation("liveness:sentinel-not-delivered", "re-parsing the written bytes stopped the input loop", mine[off:end], "sentinel missing", "sentinel")
			return
		}
		for i := off; i < end; i++ {
			kc := mine[i]
			cj, _ := json.Marshal(kc)
			w.Case("key|" + string(cj))
			w.Count("key_round_trips", 1)
			var keys []vaxis.Key
			for _, ev := range evs[i-off] {
				if k, ok := ev.(vaxis.Key); ok {
					keys = append(keys, k)
				}
			}
			class := "named"
			if kc.Keycode < 0x7f && kc.Keycode >= 0x20 {
				class = "ascii"
			} else if kc.Keycode == vaxis.KeyTab || kc.Keycode == vaxis.KeyEnter || kc.Keycode == vaxis.KeyBackspace {
				class = strings.ToLower(strings.ReplaceAll(kc.Name, "+", "-"))
			}
			modName := []string{"none", "shift", "alt", "shift-alt", "ctrl", "shift-ctrl", "alt-ctrl", "shift-alt-ctrl"}[kc.Mods]
			if len(raw[i-off]) == 0 {
				w.Violation("key:nothing-written:"+class+":"+modName, fmt.Sprintf("nothing was written for %s", kc.Name), kc, "", "an xterm encoding")
				continue
			}
			if len(keys) != 1 {
				w.Violation("key:not-one-key:"+class+":"+modName, fmt.Sprintf("%s was written as %s which parses to %d key events", kc.Name, kc.Written, len(keys)), kc, fmt.Sprintf("%#v", evs[i-off]), "exactly one key")
				continue
			}
			k := keys[0]
			gotMods := int(k.Modifiers) & 7
			if k.Keycode != kc.Keycode || gotMods != kc.Mods {
				w.Violation("key:altered:"+class+":"+modName, fmt.Sprintf("%s (mods %d) was written as %s which parses back as keycode %d mods %d", kc.Name, kc.Mods, kc.Written, k.Keycode, gotMods), kc, fmt.Sprintf("%#v", k), fmt.Sprintf("keycode %d mods %d", kc.Keycode, kc.Mods))
				continue
			}
			if kc.Text != "" && k.Text != kc.Text {
				w.Violation("key:text-altered:"+class, fmt.Sprintf("%s text %q came back as %q", kc.Name, kc.Text, k.Text), kc, k.Text, kc.Text)
				continue
			}
			// mode selection for unmodified cursor keys
			for _, n := range named {
				if n.code == kc.Keycode && n.cursor && kc.Mods == 0 {
					b := raw[i-off]
					ss3 := len(b) == 3 && b[0] == 0x1b && b[1] == 'O'
					if ss3 != kc.DECCKM {
						w.Violation("key:decckm-not-honoured", fmt.Sprintf("%s written as %s with DECCKM=%v", kc.Name, kc.Written, kc.DECCKM), kc, kc.Written, "ESC O x iff DECCKM is set, else CSI x")
					}
				}
			}
			if i%97 == 0 {
				w.Sample(kc)
			}
		}
	}
	w.Count("exhaustive_spaces", 1)
}

// multi-codepoint and non-ASCII text keys (not in the exhaustive table)
func runTextKeys(w *harness.W) {
	p, err := evp.New(0, vaxis.Options{})
	if err != nil {
		return
	}
	defer p.Close()
	m, _ := term.VerifNew(80, 24)
	defer term.VerifFree(m)
	texts := []string{"\u00e9", "\u0444", "\u4f60", "\u00e9", "\U0001F469\u200d\U0001F680", "\U0001F1FA\U0001F1F8", "\u2600\ufe0f"}
	var raw [][]byte
	for _, t := range texts {
		k := vaxis.Key{Keycode: []rune(t)[0], Text: t}
		m.Update(k)
		raw = append(raw, term.VerifTakeReplies(m))
	}
	evs, ok := p.Decode(raw)
	if !ok {
		return
	}
	for i, t := range texts {
		w.Case("textkey|" + t)
		got := ""
		for _, ev := range evs[i] {
			if k, ok := ev.(vaxis.Key); ok {
				got += k.Text
			}
		}
		if got != t {
			kind := "single-codepoint"
			if len([]rune(t)) > 1 {
				kind = "multi-codepoint"
			}
			w.Violation("key:text-altered:"+kind, fmt.Sprintf("text key %q was written as %q and came back as %q", t, raw[i], got), map[string]string{"text": t}, got, t)
		}
	}
}

type mouseCase struct {
	Button       int    `json:"button"`
	Type         int    `json:"type"` // 0 press 2 release 3 motion
	Col          int    `json:"col"`
	Row          int    `json:"row"`
	M1000, M1002 bool   `json:"-"`
	M1003, M1006 bool   `json:"-"`
	Modes        string `json:"modes"`
	Paste        bool   `json:"paste_mode"`
	AltScroll    bool   `json:"alt_scroll,omitempty"` // 1007
	AltScreen    bool   `json:"alt_screen,omitempty"` // 1049
	Written      string `json:"written,omitempty"`
	// Mods: modifiers held while the mouse event happened (the statement
	// promises button, position and type; what is enabled does not depend on
	// modifiers)
	Mods int `json:"modifiers_held,omitempty"`
}

func runMouse(w *harness.W, s spec) {
	p, err := evp.New(0, vaxis.Options{})
	if err != nil {
		w.Inconclusive("pipe-start-failed")
		return
	}
	defer p.Close()
	m, err := term.VerifNew(80, 24)
	if err != nil {
		return
	}
	defer term.VerifFree(m)
	var cases []mouseCase
	buttons := []int{0, 1, 2, 3, 64, 65, 128, 129}
	positions := []int{0, 1, 79, 222, 223, 1000}
	k := 0
	for modes := 0; modes < 16; modes++ {
		for _, btn := range buttons {
			for _, typ := range []int{0, 2, 3} {
				if btn == 3 && typ != 3 {
					continue // "no button" exists only for motion
				}
				if btn >= 64 && btn < 128 && typ != 0 {
					continue // wheel: press only
				}
				for pi, pos := range positions {
					k++
					if k%s.Of != s.Part {
						continue
					}
					mc := mouseCase{Button: btn, Type: typ, Col: pos, Row: positions[(pi+1)%len(positions)],
						M1000: modes&1 != 0, M1002: modes&2 != 0, M1003: modes&4 != 0, M1006: modes&8 != 0}
					mc.Modes = fmt.Sprintf("1000=%v 1002=%v 1003=%v 1006=%v", mc.M1000, mc.M1002, mc.M1003, mc.M1006)
					cases = append(cases, mc)
				}
			}
		}
	}
	// alternate scroll (1007): without mouse tracking, wheel motion becomes
	// cursor keys, but only on the alternate screen (xterm)
	for flags := 0; flags < 4; flags++ {
		for _, btn := range buttons {
			for _, typ := range []int{0, 2, 3} {
				if (btn == 3 && typ != 3) || (btn >= 64 && btn < 128 && typ != 0) {
					continue
				}
				k++
				if k%s.Of != s.Part {
					continue
				}
				mc := mouseCase{Button: btn, Type: typ, Col: 5, Row: 7, AltScroll: flags&1 != 0, AltScreen: flags&2 != 0}
				mc.Modes = fmt.Sprintf("no tracking, 1007=%v 1049=%v", mc.AltScroll, mc.AltScreen)
				cases = append(cases, mc)
			}
		}
	}
	const group = 50
	for off := 0; off < len(cases); off += group {
		end := off + group
		if end > len(cases) {
			end = len(cases)
		}
		var raw [][]byte
		for i := off; i < end; i++ {
			mc := &cases[i]
			if i%9 == 4 && !mc.AltScreen {
				// every mouse mode set, then a full reset (RIS): nothing is enabled
				setModes(m, onoff(1049, false), onoff(1000, true), onoff(1002, true), onoff(1003, true), onoff(1006, true), onoff(1007, true), "\x1bc")
				mc.M1000, mc.M1002, mc.M1003, mc.M1006, mc.AltScroll = false, false, false, false, false
				mc.Modes = "1000, 1002, 1003, 1006, 1007 set, then RIS (ESC c)"
			} else {
				setModes(m, onoff(1049, mc.AltScreen), onoff(1000, mc.M1000), onoff(1002, mc.M1002), onoff(1003, mc.M1003), onoff(1006, mc.M1006), onoff(1007, mc.AltScroll))
			}
			mc.Mods = []int{0, 0, mShift, mAlt, mCtrl, mShift | mAlt | mCtrl}[i%6]
			ev := vaxis.Mouse{Button: vaxis.MouseButton(mc.Button), Col: mc.Col, Row: mc.Row, EventType: vaxis.EventType(mc.Type), Modifiers: vaxis.ModifierMask(mc.Mods)}
			val, stack, panicked := harness.Recover(func() { m.Update(ev) })
			if panicked {
				w.ViolationStack("panic:"+harness.PanicKey(val, stack), "Update panicked", mc, val, "no panic", stack)
				return
			}
			b := term.VerifTakeReplies(m)
			mc.Written = fmt.Sprintf("%q", b)
			raw = append(raw, b)
		}
		// only SGR-encoded reports can be parsed back
		var sgrRaw [][]byte
		for i := off; i < end; i++ {
			if cases[i].M1006 {
				sgrRaw = append(sgrRaw, raw[i-off])
			} else {
				sgrRaw = append(sgrRaw, nil)
			}
		}
		w.Begin(fmt.Sprintf("mouse %d..%d", off, end))
		evs, ok := p.Decode(sgrRaw)
		w.End()
		if !ok {
			w.Violation("liveness:sentinel-not-delivered", "re-parsing mouse reports stopped the input loop", cases[off:end], "", "")
			return
		}
		for i := off; i < end; i++ {
			mc := cases[i]
			cj, _ := json.Marshal(mc)
			w.Case("mouse|" + string(cj))
			w.Count("mouse_events", 1)
			// what the child asked for (xterm): 1000 press/release; 1002 adds
			// motion while a button is down; 1003 adds all motion
			tracking := mc.M1000 || mc.M1002 || mc.M1003
			enabled := tracking
			if mc.Type == 3 {
				enabled = mc.M1003 || (mc.M1002 && mc.Button != 3)
			}
			wrote := len(raw[i-off]) > 0
			typName := map[int]string{0: "press", 2: "release", 3: "motion"}[mc.Type]
			if !tracking && (mc.AltScroll || mc.AltScreen) {
				w.Count("alt_scroll_cases", 1)
				wheel := mc.Button == 64 || mc.Button == 65
				want := mc.AltScroll && mc.AltScreen && wheel
				if wrote && !want {
					w.Violation("mouse:alt-scroll:written-but-not-enabled", fmt.Sprintf("%s of button %d written as %s: no mouse tracking, %s", typName, mc.Button, mc.Written, mc.Modes), mc, mc.Written, "nothing (alternate scroll applies to wheel motion on the alternate screen only)")
				} else if !wrote && want {
					w.Violation("mouse:alt-scroll:not-written", fmt.Sprintf("wheel button %d produced nothing although the child enabled alternate scroll on the alternate screen", mc.Button), mc, "nothing", "cursor keys")
				} else if wrote && !strings.Contains(string(raw[i-off]), map[int]string{64: "A", 65: "B"}[mc.Button]) {
					w.Violation("mouse:alt-scroll:wrong-keys", fmt.Sprintf("wheel button %d written as %s", mc.Button, mc.Written), mc, mc.Written, "cursor up for wheel up, cursor down for wheel down")
				}
				continue
			}
			if wrote && !enabled {
				w.Violation("mouse:written-but-not-enabled:"+typName+":"+modeKey(mc), fmt.Sprintf("%s of button %d written as %s although the child did not enable it (%s)", typName, mc.Button, mc.Written, mc.Modes), mc, mc.Written, "nothing")
				continue
			}
			if !wrote && enabled {
				w.Violation("mouse:enabled-but-not-written:"+typName+":"+modeKey(mc), fmt.Sprintf("%s of button %d not written although the child enabled it (%s)", typName, mc.Button, mc.Modes), mc, "nothing", "a mouse report")
				continue
			}
			if !wrote || !mc.M1006 {
				continue
			}
			var ms []vaxis.Mouse
			for _, ev := range evs[i-off] {
				if mm, ok := ev.(vaxis.Mouse); ok {
					ms = append(ms, mm)
				}
			}
			if len(ms) != 1 || len(evs[i-off]) != 1 {
				w.Violation("mouse:not-one-report:"+typName, fmt.Sprintf("written %s parses to %d events", mc.Written, len(evs[i-off])), mc, fmt.Sprintf("%#v", evs[i-off]), "one mouse event")
				continue
			}
			g := ms[0]
			if int(g.Button) != mc.Button || g.Col != mc.Col || g.Row != mc.Row || int(g.EventType) != mc.Type {
				w.Violation("mouse:altered:"+typName, fmt.Sprintf("button %d %s at (%d,%d) written as %s came back as button %d type %d at (%d,%d)", mc.Button, typName, mc.Col, mc.Row, mc.Written, g.Button, g.EventType, g.Col, g.Row), mc, fmt.Sprintf("%#v", g), "same button, position and type")
			}
			if i%211 == 0 {
				w.Sample(mc)
			}
		}
	}
	// paste gating
	for _, on := range []bool{false, true} {
		setModes(m, onoff(1049, false), onoff(2004, on))
		for _, ev := range []vaxis.Event{vaxis.PasteStartEvent{}, vaxis.PasteEndEvent{}} {
			m.Update(ev)
			b := term.VerifTakeReplies(m)
			w.Case(fmt.Sprintf("paste|%v|%T", on, ev))
			w.Count("paste_events", 1)
			if (len(b) > 0) != on {
				w.Violation("paste:gating", fmt.Sprintf("%T with bracketed paste mode %v wrote %q", ev, on, b), map[string]any{"mode2004": on}, fmt.Sprintf("%q", b), "brackets iff the child enabled 2004")
				continue
			}
			if on {
				evs, ok := p.Decode([][]byte{b})
				if !ok || len(evs[0]) != 1 || fmt.Sprintf("%T", evs[0][0]) != fmt.Sprintf("%T", ev) {
					w.Violation("paste:altered", fmt.Sprintf("%T written as %q came back as %#v", ev, b, evs), map[string]any{"mode2004": on}, fmt.Sprintf("%#v", evs), fmt.Sprintf("%T", ev))
				}
			}
		}
	}
	// an application leaving: everything it enabled is reset in ONE sequence
	// (CSI ? a;b;c l), with 1049 at every position, from the primary and from
	// the alternate screen; afterwards nothing may be written
	enabled := []int{1000, 1002, 1003, 1006, 2004}
	for pos := 0; pos <= len(enabled); pos++ {
		for _, alt := range []bool{false, true} {
			var on []string
			for _, md := range enabled {
				on = append(on, fmt.Sprint(md))
			}
			if alt {
				on = append(on, "1049")
			}
			var off []string
			for i, md := range enabled {
				if i == pos {
					off = append(off, "1049")
				}
				off = append(off, fmt.Sprint(md))
			}
			if pos == len(enabled) {
				off = append(off, "1049")
			}
			leave := "\x1b[?" + strings.Join(off, ";") + "l"
			term.VerifFeed(m, []byte("\x1b[?1049l\x1b[?"+strings.Join(on, ";")+"h"+leave), nil)
			term.VerifTakeReplies(m)
			var wrote []byte
			for _, ev := range []vaxis.Event{vaxis.Mouse{Button: 0, Col: 3, Row: 2, EventType: vaxis.EventPress}, vaxis.Mouse{Button: 0, Col: 3, Row: 2, EventType: vaxis.EventRelease}, vaxis.Mouse{Button: 3, Col: 4, Row: 2, EventType: vaxis.EventMotion}, vaxis.PasteStartEvent{}, vaxis.PasteEndEvent{}} {
				m.Update(ev)
				wrote = append(wrote, term.VerifTakeReplies(m)...)
			}
			w.Case(fmt.Sprintf("leave|%q|%v", leave, alt))
			w.Count("combined_reset_cases", 1)
			if len(wrote) > 0 {
				w.Violation("gating:after-combined-reset", fmt.Sprintf("the child enabled %v (alternate screen: %v) and reset everything with %q; mouse and paste events were still written: %q", enabled, alt, leave, wrote), map[string]any{"leave": leave, "alt_screen": alt}, fmt.Sprintf("%q", wrote), "nothing")
			}
		}
	}
	w.Count("exhaustive_spaces", 1)
}

func modeKey(mc mouseCase) string {
	var l []string
	if mc.M1000 {
		l = append(l, "1000")
	}
	if mc.M1002 {
		l = append(l, "1002")
	}
	if mc.M1003 {
		l = append(l, "1003")
	}
	if mc.M1006 {
		l = append(l, "1006")
	}
	if len(l) == 0 {
		return "none"
	}
	return strings.Join(l, "+")
}

func (c check) Run(w *harness.W, b harness.Batch) {
	var s spec
	json.Unmarshal(b.Spec, &s)
	switch s.Kind {
	case "keys":
		runKeys(w, s)
		if s.Part == 0 {
			runTextKeys(w)
		}
	case "mouse":
		runMouse(w, s)
	}
}

func (check) Finalize(tier string, m *harness.Merged) string {
	if m.Counts["key_round_trips"] == 0 || m.Counts["mouse_events"] == 0 || m.Counts["paste_events"] == 0 {
		return "a sub-workload observed nothing"
	}
	return ""
}
