// Package checks links every property check into the vcheck binary.
package checks

import (
	_ "verif/checks/c01"
	_ "verif/checks/c02"
	_ "verif/checks/c03"
	_ "verif/checks/c04"
	_ "verif/checks/c05"
	_ "verif/checks/c06"
	_ "verif/checks/c07"
	_ "verif/checks/c08"
	_ "verif/checks/c09"
	_ "verif/checks/c10"
	_ "verif/checks/c11"
	_ "verif/checks/c12"
	_ "verif/checks/c13"
	_ "verif/checks/c14"
	_ "verif/checks/c15"
	_ "verif/checks/c16"
	_ "verif/checks/c17"
	_ "verif/checks/c18"
	_ "verif/checks/c19"
	_ "verif/checks/c20"
)
