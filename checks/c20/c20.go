// Package c20: images fit their box, keep their aspect and reproduce their
// pixels (DESIGN.md \u00a73 C20).
package c20

import (
	"encoding/json"
	"fmt"
	"image"
	"image/color"
	"os"
	"sort"
	"strconv"
	"strings"
	"time"

	"git.sr.ht/~rockorager/vaxis"

	"verif/internal/gen"
	"verif/internal/harness"
	"verif/internal/memcon"
	"verif/internal/refterm"
	"verif/internal/vxh"
)

type check struct{}

func init() { harness.Register(check{}) }

func (check) ID() string    { return "C20" }
func (check) Level() string { return "exploration" }
func (check) Rule() string {
	return "four monitors on the real image code. fit: every image size 1..20 x 1..20 pixels and every box 0..12 x 0..12 cells for half-block and full-block images (cell = 1x2 pixels), and random image/box sizes for kitty and sixel images under cell geometries 8x16, 10x20, 7x15, 9x18 and 6x13: CellSize() <= box, <= the image's own cell size, and a single scale t exists with |w - t*W| <= 1 and |h - t*H| <= 1. pixels: random and structured RGBA images (every alpha level 0..255 occurs) that fit their box are drawn as half/full-block images on an RGB-capable reference terminal and every cell is read back: glyph and colours must equal the source pixels it covers (half block: top -> foreground, bottom -> background, alpha < 50 -> default; full block: mean of the pixels it covers), with a tolerance of 255/alpha for partially transparent pixels; scaled images may only show colours that occur in the source. clip: images larger than, or hanging over, their window on a screen filled with a sentinel glyph: every cell outside the window still shows the sentinel. placements: frame histories (add, keep, move, drop, resize, refresh) of kitty and sixel images; the graphics commands the reference terminal received in every frame are compared with a model: one placement command at the placement's cell per new/changed placement, none for unchanged ones, one delete per dropped one, all deleted and re-sent on a refresh, image data uploaded once per Resize. distinct = hash of the case"
}
func (check) Assumptions() []string {
	return []string{
		"images have their origin at (0,0) (image.NewRGBA / NewNRGBA); sub-images are outside the domain",
		"full-block cells whose two pixels fall on different sides of the transparency threshold are not judged",
		"kitty and sixel need a terminal that reports pixel sizes (in-band resize or text-area reports)",
		"sixel images have no delete command: dropped sixel placements are judged only by the absence of a retransmission",
	}
}

type spec struct {
	Kind string `json:"kind"`
	Part int    `json:"part"`
	Of   int    `json:"of"`
	N    int    `json:"n"`
}

func (check) Plan(tier string, seed int64) []harness.Batch {
	var bs []harness.Batch
	n := 400
	if tier == "thorough" {
		n = 2500
	}
	for p := 0; p < 4; p++ {
		s, _ := json.Marshal(spec{Kind: "fit-block", Part: p, Of: 4})
		bs = append(bs, harness.Batch{Name: fmt.Sprintf("fit-block-%d", p), Seed: seed, Spec: s, TimeoutS: 3000, CaseTimeoutS: 120})
		s, _ = json.Marshal(spec{Kind: "fit-pixel", N: n * 4, Part: p})
		bs = append(bs, harness.Batch{Name: fmt.Sprintf("fit-pixel-%d", p), Seed: seed*89 + int64(p), Spec: s, TimeoutS: 3000, CaseTimeoutS: 120})
		s, _ = json.Marshal(spec{Kind: "pixels", N: n * 3})
		bs = append(bs, harness.Batch{Name: fmt.Sprintf("pixels-%d", p), Seed: seed*97 + int64(p), Spec: s, TimeoutS: 3000, CaseTimeoutS: 120})
		s, _ = json.Marshal(spec{Kind: "placements", N: n, Part: p})
		bs = append(bs, harness.Batch{Name: fmt.Sprintf("placements-%d", p), Seed: seed*101 + int64(p), Spec: s, TimeoutS: 3000, CaseTimeoutS: 120})
	}
	return bs
}

// ---------------------------------------------------------------------------
// fit

type fitCase struct {
	Proto  string `json:"proto"` // half full kitty sixel
	IW     int    `json:"iw"`    // image pixels
	IH     int    `json:"ih"`
	BW     int    `json:"bw"` // box cells
	BH     int    `json:"bh"`
	CellPW int    `json:"cell_pw"`
	CellPH int    `json:"cell_ph"`
}

func ceilDiv(a, b int) int { return (a + b - 1) / b }

// judgeFit returns "" or "key|what".
func judgeFit(c fitCase, cw, ch int) string {
	srcW, srcH := ceilDiv(c.IW, c.CellPW), ceilDiv(c.IH, c.CellPH)
	if cw > c.BW || ch > c.BH {
		return fmt.Sprintf("fit:exceeds-box|%s image %dx%d px (%dx%d cells) resized for a %dx%d box occupies %dx%d cells", c.Proto, c.IW, c.IH, srcW, srcH, c.BW, c.BH, cw, ch)
	}
	if cw > srcW || ch > srcH {
		return fmt.Sprintf("fit:upscaled|%s image %dx%d px (%dx%d cells) in a %dx%d box occupies %dx%d cells", c.Proto, c.IW, c.IH, srcW, srcH, c.BW, c.BH, cw, ch)
	}
	if cw < 0 || ch < 0 {
		return fmt.Sprintf("fit:negative|%s cell size %dx%d", c.Proto, cw, ch)
	}
	// one scale factor t with |cw - t*srcW| <= 1 and |ch - t*srcH| <= 1
	lo1, hi1 := float64(cw-1)/float64(srcW), float64(cw+1)/float64(srcW)
	lo2, hi2 := float64(ch-1)/float64(srcH), float64(ch+1)/float64(srcH)
	lo, hi := lo1, hi1
	if lo2 > lo {
		lo = lo2
	}
	if hi2 < hi {
		hi = hi2
	}
	if lo > hi+1e-9 {
		return fmt.Sprintf("fit:aspect|%s image of %dx%d cells resized for a %dx%d box occupies %dx%d cells: no common scale within one cell", c.Proto, srcW, srcH, c.BW, c.BH, cw, ch)
	}
	return ""
}

func solid(w, h int) image.Image {
	img := image.NewRGBA(image.Rect(0, 0, w, h))
	for i := 0; i < len(img.Pix); i += 4 {
		img.Pix[i], img.Pix[i+1], img.Pix[i+2], img.Pix[i+3] = 200, 100, 50, 255
	}
	return img
}

func runFit(w *harness.W, sess *vxh.Session, c fitCase, sample bool) bool {
	cj, _ := json.Marshal(c)
	w.Begin(string(cj))
	defer w.End()
	w.Case(string(cj))
	img := solid(c.IW, c.IH)
	var vi vaxis.Image
	switch c.Proto {
	case "half":
		vi = sess.Vx.NewHalfBlockImage(img)
	case "full":
		vi = sess.Vx.NewFullBlockImage(img)
	case "kitty":
		vi = sess.Vx.NewKittyGraphic(img)
	case "sixel":
		vi = sess.Vx.NewSixel(img)
	}
	val, stack, panicked := harness.Recover(func() { vi.Resize(c.BW, c.BH) })
	if panicked {
		w.ViolationStack("panic:"+harness.PanicKey(val, stack), fmt.Sprintf("%s Resize(%d,%d) of a %dx%d image panicked: %s", c.Proto, c.BW, c.BH, c.IW, c.IH, val), c, val, "no panic", stack)
		return true
	}
	switch c.Proto {
	case "kitty":
		// the cell size is known at once; the encoder posts a Redraw later
		sess.DrainEvents()
	case "sixel":
		// the size is computed on the encoder goroutine, which posts a
		// Redraw when it is done (not when the result is empty)
		if !sess.WaitEvent(func(ev vaxis.Event) bool { _, ok := ev.(vaxis.Redraw); return ok }, 5*time.Second) {
			w.Inconclusive("sixel-resize-posted-no-redraw")
			return true
		}
		time.Sleep(3 * time.Millisecond)
	}
	cw, ch := vi.CellSize()
	if c.Proto == "sixel" && (cw == 0 || ch == 0) {
		// the encoder clears its busy flag just after posting the Redraw
		// (a picture scaled down to nothing really is 0x0: short wait)
		cw, ch = settledCellSize(vi, 100)
	}
	w.Count("fits_"+c.Proto, 1)
	if p := judgeFit(c, cw, ch); p != "" {
		kv := strings.SplitN(p, "|", 2)
		w.Violation(kv[0], kv[1], c, fmt.Sprintf("%dx%d", cw, ch), "within the box, not upscaled, aspect within one cell")
		return true
	}
	if cw == c.BW || ch == c.BH {
		w.Count("fits_touching_the_box", 1)
	}
	if sample {
		w.Sample(c)
	}
	return true
}

// ---------------------------------------------------------------------------
// pixels

type pixCase struct {
	Proto string   `json:"proto"`
	W     int      `json:"w"`
	H     int      `json:"h"`
	Pix   []uint32 `json:"pix"` // 0xRRGGBBAA, straight alpha
	BW    int      `json:"bw"`
	BH    int      `json:"bh"`
	WinX  int      `json:"win_x"`
	WinY  int      `json:"win_y"`
	WinW  int      `json:"win_w"`
	WinH  int      `json:"win_h"`
}

func (c pixCase) at(x, y int) (r, g, b, a int, ok bool) {
	if x < 0 || y < 0 || x >= c.W || y >= c.H {
		return 0, 0, 0, 0, false
	}
	p := c.Pix[y*c.W+x]
	return int(p >> 24), int(p >> 16 & 255), int(p >> 8 & 255), int(p & 255), true
}

func (c pixCase) image() image.Image {
	img := image.NewNRGBA(image.Rect(0, 0, c.W, c.H))
	for i, p := range c.Pix {
		img.Pix[4*i], img.Pix[4*i+1], img.Pix[4*i+2], img.Pix[4*i+3] = uint8(p>>24), uint8(p>>16), uint8(p>>8), uint8(p)
	}
	return img
}

func tol(a int) int {
	if a >= 255 {
		return 0
	}
	if a <= 0 {
		return 255
	}
	return 255/a + 1
}

func near(c refterm.Color, r, g, b, t int) bool {
	if c.K != refterm.ColRGB {
		// vaxis may use the palette entry for an exact palette colour; not for arbitrary RGB
		return false
	}
	d := func(x, y int) int {
		if x > y {
			return x - y
		}
		return y - x
	}
	return d(int(c.V>>16), r) <= t && d(int(c.V>>8&255), g) <= t && d(int(c.V&255), b) <= t
}

const sentinel = "\u00b7"

func runPixels(w *harness.W, sess *vxh.Session, c pixCase, sample bool) {
	cj, _ := json.Marshal(c)
	w.Begin(string(cj))
	defer w.End()
	w.Case(string(cj))
	img := c.image()
	var vi vaxis.Image
	if c.Proto == "half" {
		vi = sess.Vx.NewHalfBlockImage(img)
	} else {
		vi = sess.Vx.NewFullBlockImage(img)
	}
	var cw, ch int
	val, stack, panicked := harness.Recover(func() {
		vi.Resize(c.BW, c.BH)
		cw, ch = vi.CellSize()
		root := sess.Vx.Window()
		root.Clear()
		root.Fill(vaxis.Cell{Character: vaxis.Character{Grapheme: sentinel, Width: 1}})
		vi.Draw(root.New(c.WinX, c.WinY, c.WinW, c.WinH))
		sess.Vx.Render()
	})
	if panicked {
		w.ViolationStack("panic:"+harness.PanicKey(val, stack), fmt.Sprintf("%s image %dx%d: %s", c.Proto, c.W, c.H, val), c, val, "no panic", stack)
		return
	}
	scaled := cw != c.W || ch != ceilDiv(c.H, 2)
	srcColours := map[[3]int]bool{}
	if scaled {
		for _, p := range c.Pix {
			srcColours[[3]int{int(p >> 24), int(p >> 16 & 255), int(p >> 8 & 255)}] = true
		}
	}
	problem := ""
	key := ""
	sess.Con.With(func() {
		t := sess.Term
		for row := 0; row < t.Rows && problem == ""; row++ {
			for col := 0; col < t.Cols && problem == ""; col++ {
				cell := t.Cell(row, col)
				x, y := col-c.WinX, row-c.WinY
				inWin := x >= 0 && y >= 0 && x < c.WinW && y < c.WinH
				if !inWin || x >= cw || y >= ch {
					// outside the window (or the image): untouched
					if cell.G != sentinel {
						key = "clip:cell-outside-touched"
						if inWin {
							key = "pixels:cell-outside-image-touched"
						}
						problem = fmt.Sprintf("cell (%d,%d) outside the %s shows %q instead of the sentinel", col, row, map[bool]string{true: "image", false: "window"}[inWin], cell.G)
					}
					continue
				}
				w.Count("cells_read_back", 1)
				if scaled {
					// colours must come from the source
					for _, cc := range []refterm.Color{cell.Style.Fg, cell.Style.Bg} {
						if cc.K == refterm.ColRGB {
							found := false
							for sc := range srcColours {
								if near(cc, sc[0], sc[1], sc[2], 3) {
									found = true
									break
								}
							}
							if !found && c.Proto == "half" && allOpaque(c.Pix) {
								key = "pixels:scaled-colour-not-in-source"
								problem = fmt.Sprintf("cell (%d,%d) of the scaled image shows %s which no source pixel has", col, row, cc)
							}
						}
					}
					continue
				}
				tr, tg, tb, ta, _ := c.at(x, 2*y)
				br, bg, bb, ba, bok := c.at(x, 2*y+1)
				if c.Proto == "half" {
					topT, botT := ta < 50, !bok || ba < 50
					switch {
					case topT && botT:
						if strings.TrimSpace(cell.G) != "" || cell.Style.Bg.K != refterm.ColDefault {
							key, problem = "pixels:transparent-not-default", fmt.Sprintf("cell (%d,%d): both pixels are transparent (alpha %d, %d) but the cell shows %q bg %s", col, row, ta, ba, cell.G, cell.Style.Bg)
						}
					case topT:
						if cell.G != "\u2584" || !near(cell.Style.Fg, br, bg, bb, tol(ba)) || cell.Style.Bg.K != refterm.ColDefault {
							key, problem = "pixels:half-block-colour", fmt.Sprintf("cell (%d,%d): top transparent, bottom #%02x%02x%02x/%d: shows %q fg %s bg %s", col, row, br, bg, bb, ba, cell.G, cell.Style.Fg, cell.Style.Bg)
						}
					case botT:
						if cell.G != "\u2580" || !near(cell.Style.Fg, tr, tg, tb, tol(ta)) || cell.Style.Bg.K != refterm.ColDefault {
							key, problem = "pixels:half-block-colour", fmt.Sprintf("cell (%d,%d): top #%02x%02x%02x/%d, bottom transparent or absent: shows %q fg %s bg %s", col, row, tr, tg, tb, ta, cell.G, cell.Style.Fg, cell.Style.Bg)
						}
					default:
						if cell.G != "\u2580" || !near(cell.Style.Fg, tr, tg, tb, tol(ta)) || !near(cell.Style.Bg, br, bg, bb, tol(ba)) {
							key, problem = "pixels:half-block-colour", fmt.Sprintf("cell (%d,%d): top #%02x%02x%02x/%d bottom #%02x%02x%02x/%d: shows %q fg %s bg %s", col, row, tr, tg, tb, ta, br, bg, bb, ba, cell.G, cell.Style.Fg, cell.Style.Bg)
						}
					}
					continue
				}
				// full block: mean of the pixels the cell covers
				if !bok {
					br, bg, bb, ba = tr, tg, tb, ta
				}
				topT, botT := ta < 50, ba < 50
				switch {
				case topT && botT:
					if strings.TrimSpace(cell.G) != "" || cell.Style.Bg.K != refterm.ColDefault {
						key, problem = "pixels:transparent-not-default", fmt.Sprintf("cell (%d,%d): the pixels are transparent (alpha %d, %d) but the cell shows %q bg %s", col, row, ta, ba, cell.G, cell.Style.Bg)
					}
				case topT != botT:
					w.Count("full_block_mixed_transparency_not_judged", 1)
				default:
					t := tol(ta)
					if tol(ba) > t {
						t = tol(ba)
					}
					if strings.TrimSpace(cell.G) != "" || !near(cell.Style.Bg, (tr+br)/2, (tg+bg)/2, (tb+bb)/2, t+1) {
						key = "pixels:full-block-colour"
						if !bok {
							key = "pixels:full-block-colour:odd-last-row"
						}
						problem = fmt.Sprintf("cell (%d,%d) covers #%02x%02x%02x/%d and %s: shows %q bg %s, expected the mean #%02x%02x%02x", col, row, tr, tg, tb, ta, map[bool]string{true: fmt.Sprintf("#%02x%02x%02x/%d", br, bg, bb, ba), false: "no second pixel (odd height)"}[bok], cell.G, cell.Style.Bg, (tr+br)/2, (tg+bg)/2, (tb+bb)/2)
					}
				}
			}
		}
	})
	w.Count("images_read_back_"+c.Proto, 1)
	if scaled {
		w.Count("scaled_images_read_back", 1)
	}
	if problem != "" {
		w.Violation(key, fmt.Sprintf("%s image %dx%d px in a %dx%d box, window (%d,%d) %dx%d: %s", c.Proto, c.W, c.H, c.BW, c.BH, c.WinX, c.WinY, c.WinW, c.WinH, problem), c, problem, "the colours of the source pixels the cell covers")
		return
	}
	if sample && len(c.Pix) < 64 {
		w.Sample(c)
	}
}

func allOpaque(p []uint32) bool {
	for _, x := range p {
		if x&255 != 255 {
			return false
		}
	}
	return true
}

func genPix(r gen.R, i int, cols, rows int) pixCase {
	c := pixCase{Proto: []string{"half", "full"}[i%2]}
	c.W, c.H = 1+r.Intn(12), 1+r.Intn(12)
	mode := r.Intn(4)
	for k := 0; k < c.W*c.H; k++ {
		var p uint32
		switch mode {
		case 0: // opaque random
			p = uint32(r.Intn(1<<24))<<8 | 255
		case 1: // every alpha level
			p = uint32(r.Intn(1<<24))<<8 | uint32((i*7+k)%256)
		case 2: // around the threshold
			p = uint32(r.Intn(1<<24))<<8 | uint32(46+r.Intn(8))
		default: // fully transparent / opaque mix
			p = uint32(r.Intn(1<<24))<<8 | uint32([]int{0, 255, 255, 49, 50}[r.Intn(5)])
		}
		c.Pix = append(c.Pix, p)
	}
	switch r.Intn(4) {
	case 0: // box too small: scaled
		c.BW, c.BH = 1+r.Intn(c.W), 1+r.Intn(ceilDiv(c.H, 2))
	default:
		c.BW, c.BH = c.W+r.Intn(3), ceilDiv(c.H, 2)+r.Intn(3)
	}
	switch r.Intn(3) {
	case 0: // window smaller than the image / at the edge
		c.WinX, c.WinY = r.Intn(cols), r.Intn(rows)
		c.WinW, c.WinH = 1+r.Intn(6), 1+r.Intn(4)
	default:
		c.WinX, c.WinY = r.Intn(5), r.Intn(3)
		c.WinW, c.WinH = 14, 8
	}
	return c
}

// ---------------------------------------------------------------------------
// placements

type frame struct {
	// active placements in this frame: image index -> position
	Place   map[string][2]int `json:"place"`
	Resize  map[string][2]int `json:"resize,omitempty"` // image index -> new box (before drawing)
	Refresh bool              `json:"refresh,omitempty"`
	NoClear bool              `json:"no_clear,omitempty"`
	// Win: image index -> size of the window it is drawn into (default 20x10)
	Win map[string][2]int `json:"window,omitempty"`
}

// settledCellSize reads the cell size once the encoder has cleared its busy
// flag (it does so just after posting the Redraw event; while the flag is set
// CellSize reports 0x0). The pictures of the placement histories are never
// empty.
func settledCellSize(vi vaxis.Image, maxMs int) (int, int) {
	for k := 0; k < maxMs; k++ {
		if w, h := vi.CellSize(); w > 0 && h > 0 {
			return w, h
		}
		time.Sleep(time.Millisecond)
	}
	return vi.CellSize()
}

type plCase struct {
	Proto  string   `json:"proto"`
	Images [][2]int `json:"images"` // pixel sizes
	Frames []frame  `json:"frames"`
	// Cell: pixel size of a cell; Pad: pixels of the text area beyond the grid
	Cell [2]int `json:"cell_pixels,omitempty"`
	Pad  [2]int `json:"text_area_padding_pixels,omitempty"`
}

type gfxSeen struct {
	places  []string // "id@row,col"
	deletes []string // "id/pid"
	uploads map[int]int
	sixels  []string // "row,col"
}

func runPlacements(w *harness.W, sess *vxh.Session, c plCase, sample bool) bool {
	cj, _ := json.Marshal(c)
	w.Begin(string(cj))
	defer w.End()
	w.Case(string(cj))
	type im struct {
		vi     vaxis.Image
		w, h   int
		id     int // kitty image id as seen on the wire (learned at first upload)
		needUp bool
		fresh  bool // resized since the last frame: a Draw may still find the encoder busy
		raced  bool // its last Draw was skipped because the encoder was busy
	}
	imgs := make([]*im, len(c.Images))
	waitRedraw := func() bool {
		ok := sess.WaitEvent(func(ev vaxis.Event) bool { _, ok := ev.(vaxis.Redraw); return ok }, 6*time.Second)

		// the encoder clears its busy flag just after posting the Redraw
		time.Sleep(3 * time.Millisecond)
		return ok
	}
	for i, sz := range c.Images {
		x := &im{}
		if c.Proto == "kitty" {
			x.vi = sess.Vx.NewKittyGraphic(solid(sz[0], sz[1]))
		} else {
			x.vi = sess.Vx.NewSixel(solid(sz[0], sz[1]))
		}
		x.vi.Resize(6, 4)
		if !waitRedraw() {
			w.Inconclusive("resize-did-not-complete")
			return false
		}
		x.w, x.h = settledCellSize(x.vi, 2000)
		x.needUp, x.fresh = true, true
		imgs[i] = x
	}
	type pl struct{ img, col, row, w, h int }
	last := map[pl]bool{}
	mark := func() (int, int) {
		var g, s int
		sess.Con.With(func() { g, s = len(sess.Term.Gfx), len(sess.Term.SixelAt) })
		return g, s
	}
	for fi, f := range c.Frames {
		for k, box := range f.Resize {
			var i int
			fmt.Sscanf(k, "%d", &i)
			imgs[i].vi.Resize(box[0], box[1])
			if !waitRedraw() {
				w.Inconclusive("resize-did-not-complete")
				return true
			}
			imgs[i].w, imgs[i].h = settledCellSize(imgs[i].vi, 2000)
			imgs[i].needUp, imgs[i].fresh = true, true
		}
		g0, s0 := mark()
		root := sess.Vx.Window()
		if !f.NoClear {
			root.Clear()
		}
		next := map[pl]bool{}
		var order []pl
		var overlarge []string
		windows := map[string][4]int{} // kitty: cell of the placement -> window size, image cell size
		keys := make([]string, 0, len(f.Place))
		for k := range f.Place {
			keys = append(keys, k)
		}
		sort.Strings(keys)
		for _, k := range keys {
			var i int
			fmt.Sscanf(k, "%d", &i)
			pos := f.Place[k]
			wsz := [2]int{20, 10}
			if v, ok := f.Win[k]; ok {
				wsz = v
			}
			win := root.New(pos[0], pos[1], wsz[0], wsz[1])
			imgs[i].vi.Draw(win)
			p := pl{i, pos[0], pos[1], imgs[i].w, imgs[i].h}
			if c.Proto == "kitty" {
				// a kitty placement shows the part of the image that lies
				// inside the window
				ww, wh := win.Size()
				if ww <= 0 || wh <= 0 {
					continue
				}
				if p.w > ww {
					p.w = ww
				}
				if p.h > wh {
					p.h = wh
				}
				if p.w < imgs[i].w || p.h < imgs[i].h {
					w.Count("kitty_draws_into_a_window_smaller_than_the_image", 1)
				}
				wk := fmt.Sprintf("%d,%d", pos[0], pos[1])
				if _, dup := windows[wk]; dup {
					// two images at one cell: the commands cannot be told apart by position
					windows[wk] = [4]int{1 << 20, 1 << 20, imgs[i].w, imgs[i].h}
				} else {
					windows[wk] = [4]int{ww, wh, imgs[i].w, imgs[i].h}
				}
			}
			if c.Proto == "sixel" {
				ww, wh := win.Size()
				if imgs[i].w > ww || imgs[i].h > wh || imgs[i].w == 0 || imgs[i].h == 0 {
					// a sixel cannot be clipped: documented as not drawn when
					// larger than the window
					overlarge = append(overlarge, fmt.Sprintf("%d,%d", pos[0], pos[1]))
					w.Count("sixel_draws_into_a_window_smaller_than_the_image", 1)
					continue
				}
			}
			next[p] = true
			order = append(order, p)
		}
		if f.Refresh {
			sess.Vx.Refresh()
		} else {
			sess.Vx.Render()
		}
		// expected
		var wantPlace, wantDelete []pl
		for p := range last {
			if f.Refresh || !next[p] {
				wantDelete = append(wantDelete, p)
			}
		}
		for _, p := range order {
			if f.Refresh || !last[p] {
				wantPlace = append(wantPlace, p)
			}
		}
		// observed
		var seenPlace, seenDelete []string
		uploads := map[int]int{}
		var sixels []string
		clipProblem := ""
		sess.Con.With(func() {
			for _, ev := range sess.Term.Gfx[g0:] {
				switch ev.Action {
				case "p":
					seenPlace = append(seenPlace, fmt.Sprintf("id%d@%d,%d", ev.ID, ev.Col, ev.Row))
					// cells covered: the displayed source rectangle (keys w, h
					// in pixels) or the whole image
					if wi, ok := windows[fmt.Sprintf("%d,%d", ev.Col, ev.Row)]; ok && clipProblem == "" {
						cw, chh := wi[2], wi[3]
						if v, err := strconv.Atoi(ev.Keys["w"]); err == nil && v > 0 && sess.Term.CellW > 0 {
							if n := ceilDiv(v, sess.Term.CellW); n < cw {
								cw = n
							}
						}
						if v, err := strconv.Atoi(ev.Keys["h"]); err == nil && v > 0 && sess.Term.CellH > 0 {
							if n := ceilDiv(v, sess.Term.CellH); n < chh {
								chh = n
							}
						}
						if cw > wi[0] || chh > wi[1] {
							clipProblem = fmt.Sprintf("the placement of a %dx%d-cell kitty image at cell %d,%d covers %dx%d cells, its window is %dx%d", wi[2], wi[3], ev.Col, ev.Row, cw, chh, wi[0], wi[1])
						}
					}
				case "d":
					seenDelete = append(seenDelete, fmt.Sprintf("id%d/p%d", ev.ID, ev.Placement))
				case "t", "T":
					if !ev.More {
						uploads[ev.ID]++
					}
				}
			}
			for _, s := range sess.Term.SixelAt[s0:] {
				sixels = append(sixels, fmt.Sprintf("%d,%d", s[1], s[0]))
			}
		})
		w.Count("frames_"+c.Proto, 1)
		// a Draw right after a Resize may have found the encoder still busy:
		// nothing is placed then (first frame after the resize only)
		{
			seenAt := map[string]bool{}
			for _, sp := range seenPlace {
				if i := strings.IndexByte(sp, '@'); i >= 0 {
					seenAt[sp[i+1:]] = true
				}
			}
			for _, sx := range sixels {
				seenAt[sx] = true
			}
			var kept []pl
			for _, p := range wantPlace {
				if imgs[p.img].fresh && !seenAt[fmt.Sprintf("%d,%d", p.col, p.row)] {
					delete(next, p)
					imgs[p.img].raced = true
					w.Count("draws_skipped_while_encoder_busy", 1)
					continue
				}
				kept = append(kept, p)
			}
			wantPlace = kept
		}
		for _, x := range imgs {
			x.fresh = false
		}
		fail := func(key, what string) {
			w.Violation("placements:"+c.Proto+":"+key, fmt.Sprintf("frame %d: %s", fi, what), c, what, "")
		}
		if clipProblem != "" {
			fail("clip:placement-covers-cells-outside-the-window", clipProblem)
			return true
		}
		if c.Proto == "sixel" {
			var want []string
			for _, p := range wantPlace {
				want = append(want, fmt.Sprintf("%d,%d", p.col, p.row))
			}
			sort.Strings(want)
			sort.Strings(sixels)
			for _, o := range overlarge {
				inWant := false
				for _, x := range want {
					inWant = inWant || x == o
				}
				for _, x := range sixels {
					if x == o && !inWant {
						fail("clip:written-although-larger-than-the-window", fmt.Sprintf("a sixel image larger than its window (in one or both dimensions) was written at cell %s: it covers cells outside the window", o))
						return true
					}
				}
			}
			if strings.Join(want, " ") != strings.Join(sixels, " ") {
				key := "retransmitted-or-missing"
				if len(sixels) > len(want) {
					key = "retransmitted"
				} else if len(sixels) < len(want) {
					key = "not-transmitted"
				}
				fail(key, fmt.Sprintf("sixel images were written at cells [%s], the model expects [%s] (refresh=%v)", strings.Join(sixels, " "), strings.Join(want, " "), f.Refresh))
				return true
			}
			w.Count("sixel_transmissions_matched", int64(len(want)))
			// a sixel has no delete command: a picture that was dropped or
			// moved is gone only when the cells it covered were written again
			var covered [][2]int
			sess.Con.With(func() {
				for _, p := range wantPlace {
					// transmitted in this frame (matched above)
					sess.Term.CoverWithSixel(p.row, p.col, p.w, p.h)
				}
				covered = sess.Term.SixelCovered()
			})
			for _, rc := range covered {
				inside := false
				for p := range next {
					if rc[1] >= p.col && rc[1] < p.col+p.w && rc[0] >= p.row && rc[0] < p.row+p.h {
						inside = true
					}
				}
				if !inside {
					fail("dropped-image-not-erased", fmt.Sprintf("cell (%d,%d) is still covered by a sixel picture that is no longer placed there: the cells under a dropped or moved picture were not written again", rc[1], rc[0]))
					return true
				}
			}
			w.Count("cells_still_covered_by_sixels_checked", int64(len(covered)))
		} else {
			// learn wire ids from uploads: an image that needs an upload and is placed
			// in this frame uploads exactly once
			var wantP, wantD []string
			for _, p := range wantPlace {
				x := imgs[p.img]
				if x.id == 0 {
					// the id is the one uploaded in this frame that no other image owns
					for id := range uploads {
						owned := false
						for _, o := range imgs {
							if o.id == id {
								owned = true
							}
						}
						if !owned {
							// ids are handed out in creation order: smallest first
							if x.id == 0 || id < x.id {
								x.id = id
							}
						}
					}
				}
				if x.needUp {
					// (image data encoded by earlier Resize calls that were never
					// placed is sent along: wasteful, not a statement of C20)
					if uploads[x.id] < 1 && x.raced {
						// the harness drew while the encoder was still busy
						// (loaded machine): what the next frame uploads then
						// depends on where exactly the encoder was
						w.Inconclusive("upload-after-a-draw-that-raced-with-the-encoder")
						return true
					}
					if uploads[x.id] < 1 {
						fail("upload-missing", fmt.Sprintf("image %d (wire id %d) was resized and placed: no complete upload in this frame", p.img, x.id))
						return true
					}
					w.Max("uploads_for_one_placement", int64(uploads[x.id]))
					x.needUp = false
					x.raced = false
					uploads[x.id] = 0
				}
				wantP = append(wantP, fmt.Sprintf("id%d@%d,%d", x.id, p.col, p.row))
			}
			for id, n := range uploads {
				if n > 0 {
					fail("upload-repeated", fmt.Sprintf("image data for wire id %d was uploaded %d time(s) although it had not been resized", id, n))
					return true
				}
			}
			for _, p := range wantDelete {
				wantD = append(wantD, fmt.Sprintf("id%d/p%d", imgs[p.img].id, p.col<<16|p.row))
			}
			sort.Strings(wantP)
			sort.Strings(seenPlace)
			sort.Strings(wantD)
			sort.Strings(seenDelete)
			if strings.Join(wantP, " ") != strings.Join(seenPlace, " ") {
				key := "placement-mismatch"
				if len(seenPlace) > len(wantP) {
					key = "retransmitted"
				} else if len(seenPlace) < len(wantP) {
					key = "not-transmitted"
				}
				fail(key, fmt.Sprintf("placement commands seen [%s], the model expects [%s] (refresh=%v)", strings.Join(seenPlace, " "), strings.Join(wantP, " "), f.Refresh))
				return true
			}
			if strings.Join(wantD, " ") != strings.Join(seenDelete, " ") {
				key := "delete-mismatch"
				if len(seenDelete) < len(wantD) {
					key = "not-deleted"
				}
				fail(key, fmt.Sprintf("delete commands seen [%s], the model expects [%s] (refresh=%v)", strings.Join(seenDelete, " "), strings.Join(wantD, " "), f.Refresh))
				return true
			}
			w.Count("kitty_commands_matched", int64(len(wantP)+len(wantD)))
		}
		last = next
	}
	if sample {
		w.Sample(c)
	}
	return true
}

func genPlacements(r gen.R, proto string) plCase {
	c := plCase{Proto: proto}
	n := 1 + r.Intn(3)
	for i := 0; i < n; i++ {
		c.Images = append(c.Images, [2]int{30 + r.Intn(40), 30 + r.Intn(40)})
	}
	cur := map[string][2]int{}
	for fi := 0; fi < 12; fi++ {
		f := frame{Place: map[string][2]int{}}
		for i := 0; i < n; i++ {
			k := fmt.Sprint(i)
			switch r.Intn(6) {
			case 0: // drop
				delete(cur, k)
			case 1, 2: // add / move
				cur[k] = [2]int{1 + r.Intn(15), 1 + r.Intn(8)}
			case 3:
				if r.Intn(3) == 0 {
					if f.Resize == nil {
						f.Resize = map[string][2]int{}
					}
					f.Resize[k] = [2]int{2 + r.Intn(7), 2 + r.Intn(5)}
				}
			}
		}
		for i := 0; i < n; i++ {
			k := fmt.Sprint(i)
			v, ok := cur[k]
			if !ok {
				continue
			}
			f.Place[k] = v
			if r.Intn(3) == 0 {
				// a window smaller than the image, often in one dimension only
				if f.Win == nil {
					f.Win = map[string][2]int{}
				}
				f.Win[k] = [][2]int{{r.Range(1, 4), 10}, {20, r.Range(1, 2)}, {r.Range(1, 8), r.Range(1, 5)}, {0, 10}, {20, 0}}[r.Intn(5)]
			}
		}
		f.Refresh = r.Intn(7) == 0
		c.Frames = append(c.Frames, f)
	}
	return c
}

// ---------------------------------------------------------------------------

var geometries = [][2]int{{8, 16}, {10, 20}, {7, 15}, {9, 18}, {6, 13}}

// padW, padH: see startSession; set by the batch
var padW, padH int

func startSession(cw, ch int, caps refterm.Caps) (*vxh.Session, error) {
	if !caps.InBand && caps.TextArea {
		// pixel sizes through CSI 14 t / 18 t are only used with this switch
		os.Setenv("VAXIS_FORCE_XTWINOPS", "1")
	}
	sess, err := vxh.Start(40, 16, caps, vaxis.Options{}, func(t *refterm.Terminal, c *memcon.Console) {
		t.CellW, t.CellH = cw, ch
		// the text area is a few pixels larger than the cell grid (fewer
		// than one per column/row: the cell size stays cw x ch)
		t.PadW, t.PadH = padW, padH
	})
	if err != nil {
		return nil, err
	}
	if _, ok := sess.Sync(); !ok {
		sess.Close()
		return nil, fmt.Errorf("startup sync timeout")
	}
	return sess, nil
}

func (c check) Run(w *harness.W, b harness.Batch) {
	var s spec
	json.Unmarshal(b.Spec, &s)
	r := gen.New(b.Seed)
	switch s.Kind {
	case "fit-block":
		sess, err := startSession(8, 16, refterm.Caps{Unicode: true, RGB: true})
		if err != nil {
			w.Inconclusive("start-failed")
			return
		}
		defer sess.Close()
		k := 0
		for iw := 1; iw <= 20; iw++ {
			for ih := 1; ih <= 20; ih++ {
				for bw := 0; bw <= 12; bw++ {
					for bh := 0; bh <= 12; bh++ {
						k++
						if k%s.Of != s.Part {
							continue
						}
						for _, proto := range []string{"half", "full"} {
							runFit(w, sess, fitCase{Proto: proto, IW: iw, IH: ih, BW: bw, BH: bh, CellPW: 1, CellPH: 2}, k%9973 == 0)
						}
					}
				}
			}
		}
		// wider images against every box width (rounding of the scaled
		// size shows from 25 pixels on)
		for iw := 21; iw <= 96; iw++ {
			for _, ih := range []int{1, 2, 7, 20, 48} {
				for bw := 1; bw <= 12; bw++ {
					for _, bh := range []int{1, 3, 12} {
						k++
						if k%s.Of != s.Part {
							continue
						}
						for _, proto := range []string{"half", "full"} {
							runFit(w, sess, fitCase{Proto: proto, IW: iw, IH: ih, BW: bw, BH: bh, CellPW: 1, CellPH: 2}, false)
						}
					}
				}
			}
		}
	case "fit-pixel":
		g := geometries[s.Part%len(geometries)]
		padW, padH = (s.Part*11)%40, (s.Part*3)%16
		sess, err := startSession(g[0], g[1], refterm.Caps{Unicode: true, RGB: true, Sync: true, InBand: s.Part%2 == 0, TextArea: true, KittyGfx: true, Sixel: true})
		if err != nil {
			w.Inconclusive("start-failed")
			return
		}
		defer sess.Close()
		for i := 0; i < s.N; i++ {
			c := fitCase{Proto: []string{"kitty", "kitty", "kitty", "sixel"}[i%4], CellPW: g[0], CellPH: g[1]}
			// image sizes around multiples of the cell size, equal scale factors included
			cols, lines := 1+r.Intn(14), 1+r.Intn(10)
			c.IW, c.IH = cols*g[0]-r.Intn(g[0]), lines*g[1]-r.Intn(g[1])
			c.BW, c.BH = r.Intn(13), r.Intn(9)
			if c.Proto == "sixel" {
				c.BW, c.BH = 1+r.Intn(12), 1+r.Intn(8)
			}
			if r.Intn(4) == 0 && cols > 1 && lines > 1 {
				// same scale factor in both directions
				f := 2 + r.Intn(3)
				c.IW, c.IH = cols*f*g[0], lines*f*g[1]
				c.BW, c.BH = cols, lines
			}
			if !runFit(w, sess, c, i == 0) {
				return
			}
		}
	case "pixels":
		sess, err := startSession(8, 16, refterm.Caps{Unicode: true, RGB: true, Sync: true})
		if err != nil {
			w.Inconclusive("start-failed")
			return
		}
		defer sess.Close()
		for i := 0; i < s.N; i++ {
			runPixels(w, sess, genPix(r, i, 40, 16), i < 2)
		}
	case "placements":
		g := geometries[s.Part%len(geometries)]
		padW, padH = (s.Part*7+3)%40, (s.Part*5+2)%16
		sess, err := startSession(g[0], g[1], refterm.Caps{Unicode: true, RGB: true, Sync: true, InBand: true, TextArea: true, KittyGfx: true, Sixel: true})
		if err != nil {
			w.Inconclusive("start-failed")
			return
		}
		defer sess.Close()
		for i := 0; i < s.N; i++ {
			// every history starts from an empty placement list
			sess.Vx.Window().Clear()
			sess.Vx.Refresh()
			pc := genPlacements(r, []string{"kitty", "sixel"}[i%2])
			pc.Cell, pc.Pad = [2]int{g[0], g[1]}, [2]int{padW, padH}
			if !runPlacements(w, sess, pc, i < 2) {
				return
			}
		}
	}
}

func (c check) Replay(w *harness.W, raw json.RawMessage) {
	var probe map[string]json.RawMessage
	json.Unmarshal(raw, &probe)
	if j, ok := probe["journal"]; ok {
		var s string
		json.Unmarshal(j, &s)
		raw = json.RawMessage(s)
		probe = nil
		json.Unmarshal(raw, &probe)
	}
	caps := refterm.Caps{Unicode: true, RGB: true, Sync: true, InBand: true, TextArea: true, KittyGfx: true, Sixel: true}
	switch {
	case probe["frames"] != nil:
		var pc plCase
		json.Unmarshal(raw, &pc)
		if pc.Cell[0] == 0 {
			pc.Cell = [2]int{8, 16}
		}
		padW, padH = pc.Pad[0], pc.Pad[1]
		sess, err := startSession(pc.Cell[0], pc.Cell[1], caps)
		if err != nil {
			fmt.Println(err)
			return
		}
		defer sess.Close()
		runPlacements(w, sess, pc, false)
	case probe["pix"] != nil:
		var pc pixCase
		json.Unmarshal(raw, &pc)
		sess, err := startSession(8, 16, refterm.Caps{Unicode: true, RGB: true, Sync: true})
		if err != nil {
			fmt.Println(err)
			return
		}
		defer sess.Close()
		runPixels(w, sess, pc, false)
	default:
		var fc fitCase
		json.Unmarshal(raw, &fc)
		if fc.Proto == "half" || fc.Proto == "full" {
			caps = refterm.Caps{Unicode: true, RGB: true}
		}
		cw, ch := fc.CellPW, fc.CellPH
		if fc.Proto == "half" || fc.Proto == "full" {
			cw, ch = 8, 16
		}
		sess, err := startSession(cw, ch, caps)
		if err != nil {
			fmt.Println(err)
			return
		}
		defer sess.Close()
		runFit(w, sess, fc, false)
	}
}

func (check) Finalize(tier string, m *harness.Merged) string {
	for _, k := range []string{"fits_half", "fits_full", "fits_kitty", "fits_sixel", "cells_read_back", "frames_kitty", "frames_sixel", "kitty_commands_matched", "sixel_transmissions_matched"} {
		if m.Counts[k] == 0 {
			return "monitor observed nothing: " + k
		}
	}
	return ""
}

var _ = color.RGBA{}
