// Package c14: vxfw layout contract and surface addressing (DESIGN.md \u00a73 C14).
package c14

import (
	"encoding/json"
	"fmt"
	"sort"
	"strings"
	"sync"
	"time"

	"git.sr.ht/~rockorager/vaxis"
	"git.sr.ht/~rockorager/vaxis/vxfw"
	"git.sr.ht/~rockorager/vaxis/vxfw/button"
	"git.sr.ht/~rockorager/vaxis/vxfw/center"
	"git.sr.ht/~rockorager/vaxis/vxfw/list"
	"git.sr.ht/~rockorager/vaxis/vxfw/richtext"
	"git.sr.ht/~rockorager/vaxis/vxfw/text"
	"git.sr.ht/~rockorager/vaxis/vxfw/textfield"

	"verif/internal/gen"
	"verif/internal/harness"
	"verif/internal/memcon"
	"verif/internal/refterm"
	"verif/internal/vxh"
	"verif/internal/widthtab"
)

type check struct{}

func init() { harness.Register(check{}) }

func (check) ID() string    { return "C14" }
func (check) Level() string { return "exploration" }
func (check) Rule() string {
	return "three monitors. (1) addressing: surfaces of sizes from 0x0 to 65535x2 including 256x256 and 300x300 (more than 65535 cells) receive writes at every boundary coordinate (0, 1, size-1, size, size+1, 65535) and random ones; the buffer is then scanned: each inside write must sit at index row*width+col and nowhere else, outside writes must leave it unchanged. (2) layout contract: every built-in widget (Text/RichText soft and hard wrap, Center, Button, list.Dynamic with and without gutter, TextField) and random nestings of them, with every child wrapped in a recorder, is drawn under every pair of max width/height from {0,1,2,3,4,5,8,16,80,300,65534,unbounded} (bounded allocation: widgets that allocate their maximum are skipped above 200k cells) and contents {empty, one char, words, multi-line, wide graphemes, trailing newline, 300 chars, 100 lines, 70000 chars}: no panic, returned size <= max in every bounded dimension, buffer length = width*height, Center/Button children that fit lie inside with margins equal within one cell. (3) rendering: random surface trees (depth <= 3, children at negative/overhanging offsets, distinct z-indexes, sparse buffers) and the surfaces real widgets return are rendered by App.Run on the reference terminal and the grid is compared with an independent painter (child at offset, clipped to every ancestor, ascending z). distinct = hash of the case"
}
func (check) Assumptions() []string {
	return []string{
		"Center, Button and list.Dynamic document a panic for unbounded constraints: they are never given one",
		"siblings that overlap get distinct z-indexes (equal z leaves the order open)",
		"the root surface is clipped to the screen; its children to the screen as well (the root has no parent window but the screen)",
		"the surface tree handed to render is taken as given for monitor (3): it judges painting, not layout",
	}
}

type spec struct {
	Kind string `json:"kind"`
	Part int    `json:"part"`
	Of   int    `json:"of"`
	N    int    `json:"n"`
}

func (check) Plan(tier string, seed int64) []harness.Batch {
	var bs []harness.Batch
	nr, nn := 150, 300
	if tier == "thorough" {
		nr, nn = 4000, 20000
	}
	s, _ := json.Marshal(spec{Kind: "addressing"})
	bs = append(bs, harness.Batch{Name: "addressing", Seed: seed, Spec: s, TimeoutS: 1500, CaseTimeoutS: 60})
	for p := 0; p < 8; p++ {
		s, _ := json.Marshal(spec{Kind: "widgets", Part: p, Of: 8})
		bs = append(bs, harness.Batch{Name: fmt.Sprintf("widgets-%d", p), Seed: seed, Spec: s, TimeoutS: 3000, CaseTimeoutS: 60})
		s, _ = json.Marshal(spec{Kind: "nestings", N: nn})
		bs = append(bs, harness.Batch{Name: fmt.Sprintf("nestings-%d", p), Seed: seed*61 + int64(p), Spec: s, TimeoutS: 3000, CaseTimeoutS: 60})
		s, _ = json.Marshal(spec{Kind: "render", N: nr, Part: p})
		bs = append(bs, harness.Batch{Name: fmt.Sprintf("render-%d", p), Seed: seed*67 + int64(p), Spec: s, TimeoutS: 3000, CaseTimeoutS: 60})
	}
	return bs
}

// ---------------------------------------------------------------------------
// (1) addressing

type addrCase struct {
	W      int      `json:"w"`
	H      int      `json:"h"`
	Writes [][2]int `json:"writes"`
}

var addrSizes = [][2]int{{0, 0}, {0, 5}, {5, 0}, {1, 1}, {3, 2}, {2, 3}, {7, 7}, {255, 255}, {256, 256}, {257, 255}, {300, 300}, {65535, 1}, {1, 65535}, {65535, 2}, {2, 40000}, {1000, 70}, {70, 1000}, {4096, 17}}

func runAddressing(w *harness.W, c addrCase) {
	cj, _ := json.Marshal(struct {
		W, H, N int
	}{c.W, c.H, len(c.Writes)})
	w.Begin(string(cj))
	defer w.End()
	w.Case(fmt.Sprint(c.W, c.H, c.Writes))
	var s vxfw.Surface
	val, stack, panicked := harness.Recover(func() { s = vxfw.NewSurface(uint16(c.W), uint16(c.H), nil) })
	if panicked {
		w.ViolationStack("panic:"+harness.PanicKey(val, stack), fmt.Sprintf("NewSurface(%d,%d) panicked: %s", c.W, c.H, val), c, val, "no panic", stack)
		return
	}
	if len(s.Buffer) != c.W*c.H {
		w.Violation("surface:buffer-size", fmt.Sprintf("NewSurface(%d,%d) has a buffer of %d cells, expected %d", c.W, c.H, len(s.Buffer), c.W*c.H), c, fmt.Sprint(len(s.Buffer)), fmt.Sprint(c.W*c.H))
		return
	}
	model := map[int]string{}
	for i, wr := range c.Writes {
		col, row := wr[0], wr[1]
		id := fmt.Sprintf("#%d", i)
		val, stack, panicked := harness.Recover(func() {
			s.WriteCell(uint16(col), uint16(row), vaxis.Cell{Character: vaxis.Character{Grapheme: id, Width: 1}})
		})
		inside := col < c.W && row < c.H
		if panicked {
			k := "outside"
			if inside {
				k = "inside"
			}
			w.ViolationStack("surface:write-panics:"+k, fmt.Sprintf("WriteCell(%d,%d) on a %dx%d surface panicked: %s", col, row, c.W, c.H, val), struct {
				W, H, Col, Row int
			}{c.W, c.H, col, row}, val, "no panic", stack)
			return
		}
		if inside {
			model[row*c.W+col] = id
			w.Count("writes_inside", 1)
		} else {
			w.Count("writes_outside", 1)
		}
	}
	for i := range s.Buffer {
		want := model[i]
		if s.Buffer[i].Grapheme != want {
			kind := "surface:outside-write-lands-in-buffer"
			if want != "" {
				kind = "surface:inside-write-lost"
			}
			// which write produced it
			wr := ""
			if g := s.Buffer[i].Grapheme; g != "" {
				var n int
				fmt.Sscanf(g, "#%d", &n)
				wr = fmt.Sprintf(" (written by WriteCell(%d,%d))", c.Writes[n][0], c.Writes[n][1])
				if want != "" {
					kind = "surface:write-lands-in-wrong-cell"
				}
				if c.Writes[n][0] < c.W && c.Writes[n][1] < c.H {
					kind = "surface:write-lands-in-wrong-cell"
				}
			}
			w.Violation(kind, fmt.Sprintf("%dx%d surface: buffer index %d (col %d, row %d) holds %q%s, expected %q", c.W, c.H, i, i%c.W, i/c.W, s.Buffer[i].Grapheme, wr, want), struct {
				W, H, Index int
			}{c.W, c.H, i}, s.Buffer[i].Grapheme, want)
			return
		}
	}
	w.Count("buffers_scanned", 1)
	w.Count("cells_scanned", int64(len(s.Buffer)))
}

// ---------------------------------------------------------------------------
// (2) layout contract

var contents = map[string]string{
	"empty":     "",
	"char":      "a",
	"words":     "hello brave new world",
	"lines":     "line one\nline two\nthe third line",
	"wide":      "\u4f60\u597d\u4e16\u754c wide \u6f22\u5b57",
	"trailing":  "abc\n",
	"newlines":  "\n\n",
	"long":      strings.Repeat("abcdefghi ", 30),
	"tall":      strings.Repeat("x\n", 100),
	"huge":      strings.Repeat("0123456789 ", 6400),
	"longword":  strings.Repeat("a", 1200),
	"hugelines": strings.Repeat("y\n", 70000),
}
var contentNames = []string{"empty", "char", "words", "lines", "wide", "trailing", "newlines", "long", "tall", "huge", "hugelines", "longword"}

var dims = []int{0, 1, 2, 3, 4, 5, 8, 16, 80, 300, 65534, 65535}

// wnode describes a widget tree.
type wnode struct {
	Kind     string  `json:"kind"` // text-soft text-hard rich-soft rich-hard textfield center button list list-cursor
	Content  string  `json:"content,omitempty"`
	Children []wnode `json:"children,omitempty"`
	Gap      int     `json:"gap,omitempty"`
	Cursor   int     `json:"cursor,omitempty"`
}

type wcase struct {
	Tree wnode `json:"tree"`
	MaxW int   `json:"max_w"`
	MaxH int   `json:"max_h"`
	MinW int   `json:"min_w,omitempty"`
	MinH int   `json:"min_h,omitempty"`
	// Then: the same widget instances are drawn again, frame after frame,
	// under other constraints; lists are scrolled and lose items in between
	Then []wstep `json:"then_redrawn,omitempty"`
}

// wstep is one later frame of the same widgets.
type wstep struct {
	MaxW   int `json:"max_w"`
	MaxH   int `json:"max_h"`
	Scroll int `json:"lists_scrolled_by,omitempty"`
	// Keep >= 0: every list's builder only has its first Keep items left
	Keep int `json:"lists_keep_items"`
}

type listState struct {
	d     *list.Dynamic
	limit int
}

// lists built for the case in progress (a worker runs one case at a time)
var curLists []*listState

// recorder wraps a child widget and judges what it returns against what it
// was given.
type recorder struct {
	inner vxfw.Widget
	kind  string
	log   *[]string
}

func (r *recorder) HandleEvent(ev vaxis.Event, ph vxfw.EventPhase) (vxfw.Command, error) {
	return r.inner.HandleEvent(ev, ph)
}

func sizeProblem(kind string, ctx vxfw.DrawContext, s vxfw.Surface) string {
	if !ctx.Max.HasUnboundedWidth() && s.Size.Width > ctx.Max.Width {
		return fmt.Sprintf("%s:surface-exceeds-max:width|%s returned a surface %d wide for a maximum of %d", kind, kind, s.Size.Width, ctx.Max.Width)
	}
	if !ctx.Max.HasUnboundedHeight() && s.Size.Height > ctx.Max.Height {
		return fmt.Sprintf("%s:surface-exceeds-max:height|%s returned a surface %d high for a maximum of %d", kind, kind, s.Size.Height, ctx.Max.Height)
	}
	if len(s.Buffer) != int(s.Size.Width)*int(s.Size.Height) {
		return fmt.Sprintf("%s:buffer-size|%s returned a %dx%d surface whose buffer has %d cells", kind, kind, s.Size.Width, s.Size.Height, len(s.Buffer))
	}
	return ""
}

func (r *recorder) Draw(ctx vxfw.DrawContext) (vxfw.Surface, error) {
	s, err := r.inner.Draw(ctx)
	if err == nil {
		if p := sizeProblem(r.kind, ctx, s); p != "" {
			*r.log = append(*r.log, p)
		}
	}
	return s, err
}

func allocates(k string) bool {
	return k == "center" || k == "button" || k == "list" || k == "list-cursor"
}

func build(n wnode, log *[]string, wrap bool) vxfw.Widget {
	var wd vxfw.Widget
	switch n.Kind {
	case "text-soft", "text-hard":
		t := text.New(contents[n.Content])
		t.Softwrap = n.Kind == "text-soft"
		wd = t
	case "rich-soft", "rich-hard":
		c := contents[n.Content]
		half := len(c) / 2
		for half > 0 && half < len(c) && c[half]&0xC0 == 0x80 {
			half--
		}
		t := richtext.New([]vaxis.Segment{{Text: c[:half], Style: vaxis.Style{Foreground: vaxis.IndexColor(2)}}, {Text: c[half:], Style: vaxis.Style{Attribute: vaxis.AttrBold}}})
		t.Softwrap = n.Kind == "rich-soft"
		wd = t
	case "textfield":
		tf := textfield.New()
		c := contents[n.Content]
		if len(c) > 2000 {
			c = c[:2000]
		}
		tf.InsertStringAtCursor(strings.ReplaceAll(c, "\n", " "))
		wd = tf
	case "center":
		wd = &center.Center{Child: build(n.Children[0], log, true)}
	case "button":
		wd = button.New(contents[n.Content], func() (vxfw.Command, error) { return nil, nil })
	case "list", "list-cursor":
		kids := make([]vxfw.Widget, len(n.Children))
		for i := range n.Children {
			kids[i] = build(n.Children[i], log, true)
		}
		ls := &listState{limit: len(kids)}
		d := &list.Dynamic{Builder: func(i uint, cursor uint) vxfw.Widget {
			if int(i) >= len(kids) || int(i) >= ls.limit {
				return nil
			}
			return kids[i]
		}, DrawCursor: n.Kind == "list-cursor", Gap: n.Gap}
		ls.d = d
		curLists = append(curLists, ls)
		if n.Cursor > 0 && n.Cursor < len(kids) {
			d.SetCursor(uint(n.Cursor))
		}
		wd = d
	default:
		panic("unknown widget kind " + n.Kind)
	}
	if wrap {
		return &recorder{inner: wd, kind: n.Kind, log: log}
	}
	return wd
}

// centering judges the placement of the only child of a Center/Button surface.
func centering(kind string, s vxfw.Surface) string {
	if len(s.Children) != 1 {
		return fmt.Sprintf("%s:children|%s surface has %d children", kind, kind, len(s.Children))
	}
	ch := s.Children[0]
	W, H := int(s.Size.Width), int(s.Size.Height)
	cw, chh := int(ch.Surface.Size.Width), int(ch.Surface.Size.Height)
	if cw > W || chh > H {
		return "" // does not fit (reported at the child)
	}
	l, t := ch.Origin.Col, ch.Origin.Row
	r, b := W-l-cw, H-t-chh
	if l < 0 || t < 0 || r < 0 || b < 0 {
		return fmt.Sprintf("%s:child-outside|%s %dx%d places a fitting %dx%d child at (%d,%d)", kind, kind, W, H, cw, chh, l, t)
	}
	if l-r > 1 || r-l > 1 || t-b > 1 || b-t > 1 {
		return fmt.Sprintf("%s:margins-unequal|%s %dx%d places a %dx%d child at (%d,%d): margins left %d right %d top %d bottom %d", kind, kind, W, H, cw, chh, l, t, l, r, t, b)
	}
	return ""
}

// walk checks Center/Button surfaces anywhere in the returned tree.
func walk(s vxfw.Surface, problems *[]string, depth int) {
	if depth > 20 {
		return
	}
	switch s.Widget.(type) {
	case *center.Center:
		if p := centering("center", s); p != "" {
			*problems = append(*problems, p)
		}
	case *button.Button:
		if p := centering("button", s); p != "" {
			*problems = append(*problems, p)
		}
	}
	for _, c := range s.Children {
		walk(c.Surface, problems, depth+1)
	}
}

func cellsNeeded(n wnode, W, H int) int {
	t := 0
	if allocates(n.Kind) {
		t = W * H
	}
	for _, c := range n.Children {
		// children of a list get unbounded height: content-sized
		t += cellsNeeded(c, W, H)
	}
	return t
}

func legal(n wnode, W, H int) bool {
	if allocates(n.Kind) && (W == 65535 || H == 65535) {
		return false
	}
	for _, c := range n.Children {
		cw, ch := W, H
		if n.Kind == "list" || n.Kind == "list-cursor" {
			ch = 65535
			if allocates(c.Kind) {
				return false
			}
		}
		if !legal(c, cw, ch) {
			return false
		}
	}
	return true
}

func runWidget(w *harness.W, c wcase, sample bool) {
	if !legal(c.Tree, c.MaxW, c.MaxH) || cellsNeeded(c.Tree, c.MaxW, c.MaxH) > 200000 {
		w.Count("skipped_undefined_or_too_large", 1)
		return
	}
	cj, _ := json.Marshal(c)
	w.Begin(string(cj))
	defer w.End()
	w.Case(string(cj))
	var log []string
	curLists = nil
	wd := build(c.Tree, &log, true)
	frames := append([]wstep{{MaxW: c.MaxW, MaxH: c.MaxH, Keep: -1}}, c.Then...)
	for fi, st := range frames {
		if fi > 0 {
			if !legal(c.Tree, st.MaxW, st.MaxH) || cellsNeeded(c.Tree, st.MaxW, st.MaxH) > 200000 {
				continue
			}
			for _, ls := range curLists {
				if st.Keep >= 0 && st.Keep < ls.limit {
					ls.limit = st.Keep
				}
				if st.Scroll != 0 {
					ls.d.SetPendingScroll(st.Scroll)
				}
			}
			w.Count("redraws_of_the_same_widgets", 1)
		}
		ctx := vxfw.DrawContext{Min: vxfw.Size{Width: uint16(c.MinW), Height: uint16(c.MinH)}, Max: vxfw.Size{Width: uint16(st.MaxW), Height: uint16(st.MaxH)}, Characters: vaxis.Characters}
		if c.MinW > st.MaxW || c.MinH > st.MaxH {
			ctx.Min = vxfw.Size{}
		}
		var s vxfw.Surface
		var err error
		val, stack, panicked := harness.Recover(func() { s, err = wd.Draw(ctx) })
		when := ""
		if fi > 0 {
			when = fmt.Sprintf(" (frame %d of the same widgets)", fi+1)
		}
		if panicked {
			w.ViolationStack("panic:"+harness.PanicKey(val, stack), fmt.Sprintf("%s.Draw panicked under max %dx%d with content %q%s: %s", c.Tree.Kind, st.MaxW, st.MaxH, c.Tree.Content, when, val), c, val, "no panic", stack)
			return
		}
		w.Count("draws", 1)
		w.Distinct("widget_kinds", c.Tree.Kind)
		if err != nil {
			w.Count("draw_errors", 1)
			return
		}
		walk(s, &log, 0)
		if len(log) > 0 {
			kv := strings.SplitN(log[0], "|", 2)
			w.Violation(kv[0], kv[1]+fmt.Sprintf(" (root max %dx%d)%s", st.MaxW, st.MaxH, when), c, kv[1], "size <= max, buffer = width*height, centred child inside with margins equal within one cell")
			return
		}
	}
	if sample {
		w.Sample(c)
	}
}

func genTree(r gen.R, depth int, inList bool) wnode {
	leaf := []string{"text-soft", "text-hard", "rich-soft", "rich-hard", "textfield"}
	small := []string{"empty", "char", "words", "lines", "wide", "trailing", "newlines", "long", "tall"}
	k := r.Intn(10)
	if depth >= 3 || inList || k < 4 {
		return wnode{Kind: leaf[r.Intn(len(leaf))], Content: small[r.Intn(len(small))]}
	}
	switch {
	case k < 7:
		return wnode{Kind: "center", Children: []wnode{genTree(r, depth+1, false)}}
	case k < 8:
		return wnode{Kind: "button", Content: small[r.Intn(len(small))]}
	default:
		n := wnode{Kind: []string{"list", "list-cursor"}[r.Intn(2)], Gap: r.Intn(3)}
		cnt := r.Intn(6)
		for i := 0; i < cnt; i++ {
			n.Children = append(n.Children, genTree(r, depth+1, true))
		}
		if cnt > 0 {
			n.Cursor = r.Intn(cnt)
		}
		return n
	}
}

// ---------------------------------------------------------------------------
// (3) rendering

type rnode struct {
	W        int     `json:"w"`
	H        int     `json:"h"`
	Col      int     `json:"col"`
	Row      int     `json:"row"`
	Z        int     `json:"z"`
	ID       int     `json:"id"`
	Sparse   bool    `json:"sparse,omitempty"`
	// Wide: the surface holds two-column graphemes, one of them starting in
	// its last column (where it does not fit)
	Wide     bool    `json:"wide_graphemes,omitempty"`
	Children []rnode `json:"children,omitempty"`
}

type rcase struct {
	Cols   int    `json:"cols"`
	Rows   int    `json:"rows"`
	Tree   *rnode `json:"tree,omitempty"`
	Widget *wnode `json:"widget,omitempty"`
}

type dummy struct{ id int }

func (d *dummy) HandleEvent(vaxis.Event, vxfw.EventPhase) (vxfw.Command, error) { return nil, nil }
func (d *dummy) Draw(vxfw.DrawContext) (vxfw.Surface, error)                    { return vxfw.Surface{}, nil }

func letters(id int) string { return string(rune('A' + id%26)) }

func (n rnode) surface() vxfw.Surface {
	s := vxfw.NewSurface(uint16(n.W), uint16(n.H), &dummy{n.ID})
	for i := range s.Buffer {
		if n.Sparse && i%3 == 1 {
			continue
		}
		s.Buffer[i] = vaxis.Cell{Character: vaxis.Character{Grapheme: letters(n.ID), Width: 1}, Style: vaxis.Style{Foreground: vaxis.IndexColor(uint8(1 + n.ID%200))}}
		if col := i % n.W; n.Wide && (col == n.W-1 || (col%5 == 1 && col+1 < n.W-1)) {
			s.Buffer[i].Character = vaxis.Character{Grapheme: "\u4f60", Width: 2}
		} else if n.Wide && col > 0 && s.Buffer[i-1].Width == 2 {
			s.Buffer[i] = vaxis.Cell{} // the second column of the wide grapheme
		}
	}
	for _, c := range n.Children {
		ss := vxfw.NewSubSurface(c.Col, c.Row, c.surface())
		ss.ZIndex = c.Z
		s.Children = append(s.Children, ss)
	}
	return s
}

func appColor(c vaxis.Color) refterm.Color {
	p := c.Params()
	switch len(p) {
	case 1:
		return refterm.Color{K: refterm.ColIndexed, V: uint32(p[0])}
	case 3:
		return refterm.Color{K: refterm.ColRGB, V: uint32(p[0])<<16 | uint32(p[1])<<8 | uint32(p[2])}
	}
	return refterm.Color{}
}

func appCell(c vaxis.Cell) vxh.AppCell {
	return vxh.AppCell{G: c.Grapheme, Width: c.Width, Style: vxh.AppStyle{Fg: appColor(c.Foreground), Bg: appColor(c.Background), Attr: vxh.FromAttr(c.Attribute), UlStyle: uint8(c.UnderlineStyle), Ul: appColor(c.UnderlineColor)}}
}

type rect struct{ x0, y0, x1, y1 int } // half open

func (a rect) and(b rect) rect {
	r := rect{max(a.x0, b.x0), max(a.y0, b.y0), min(a.x1, b.x1), min(a.y1, b.y1)}
	return r
}

// paint is the independent painter: own buffer first, then children in
// ascending z (stable), each at its offset and clipped to every ancestor.
func paint(sh *vxh.Shadow, s vxfw.Surface, ox, oy int, clip rect, painted *int) {
	W := int(s.Size.Width)
	for i, cell := range s.Buffer {
		if W == 0 {
			break
		}
		x, y := ox+i%W, oy+i/W
		if x < clip.x0 || x >= clip.x1 || y < clip.y0 || y >= clip.y1 {
			continue
		}
		cw := cell.Width
		if cw == 0 && cell.Grapheme != "" {
			cw, _ = widthtab.Lookup(cell.Grapheme, widthtab.Unicode)
		}
		if cw > 1 && x+cw > clip.x1 {
			continue // a wide cell is not drawn partly outside a window
		}
		sh.Set(x, y, appCell(cell))
		*painted++
	}
	kids := append([]vxfw.SubSurface{}, s.Children...)
	sort.SliceStable(kids, func(i, j int) bool { return kids[i].ZIndex < kids[j].ZIndex })
	for _, k := range kids {
		kx, ky := ox+k.Origin.Col, oy+k.Origin.Row
		kc := clip.and(rect{kx, ky, kx + int(k.Surface.Size.Width), ky + int(k.Surface.Size.Height)})
		paint(sh, k.Surface, kx, ky, kc, painted)
	}
}

type (
	evNext struct{}
	evPing struct{ n int }
	evQuit struct{}
)

type rootW struct {
	mu     sync.Mutex
	surf   *vxfw.Surface
	inner  vxfw.Widget
	last   vxfw.Surface
	gen    int
	drawn  chan int
	pinged chan int
}

func (r *rootW) HandleEvent(ev vaxis.Event, ph vxfw.EventPhase) (vxfw.Command, error) {
	switch ev := ev.(type) {
	case evNext:
		return vxfw.RedrawCmd{}, nil
	case evPing:
		r.pinged <- ev.n
	case evQuit:
		return vxfw.QuitCmd{}, nil
	}
	return nil, nil
}

func (r *rootW) Draw(ctx vxfw.DrawContext) (vxfw.Surface, error) {
	r.mu.Lock()
	defer r.mu.Unlock()
	var s vxfw.Surface
	if r.inner != nil {
		var err error
		s, err = r.inner.Draw(ctx)
		if err != nil {
			return s, err
		}
	} else if r.surf != nil {
		s = *r.surf
	} else {
		s = vxfw.NewSurface(0, 0, r)
	}
	r.last = s
	select {
	case r.drawn <- r.gen:
	default:
	}
	return s, nil
}

type renv struct {
	cols, rows int
	term       *refterm.Terminal
	con        *memcon.Console
	app        *vxfw.App
	root       *rootW
	done       chan error
	n          int
}

func startApp(cols, rows int) (*renv, error) {
	e := &renv{cols: cols, rows: rows}
	e.term = refterm.New(cols, rows, refterm.Caps{Unicode: true, Sync: true})
	e.con = memcon.New(e.term)
	app, err := vxfw.NewApp(vaxis.Options{WithConsole: e.con, NoSignals: true})
	if err != nil {
		return nil, err
	}
	e.app = app
	e.root = &rootW{drawn: make(chan int, 64), pinged: make(chan int, 64)}
	e.done = make(chan error, 1)
	go func() { e.done <- app.Run(e.root) }()
	// Run lays the root out once before its loop without rendering: wait
	// until the loop answers, so that every later Draw is followed by a render
	e.n++
	app.PostEvent(evPing{e.n})
	select {
	case <-e.root.pinged:
	case <-time.After(10 * time.Second):
		return nil, fmt.Errorf("app loop did not start")
	}
	return e, nil
}

func (e *renv) stop() bool {
	e.app.PostEvent(evQuit{})
	select {
	case <-e.done:
		return true
	case <-time.After(10 * time.Second):
		return false
	}
}

// frame makes the app draw and render the current root content and returns
// once the frame has been written to the terminal.
func (e *renv) frame() bool {
	e.root.mu.Lock()
	e.root.gen++
	g := e.root.gen
	e.root.mu.Unlock()
	for len(e.root.drawn) > 0 {
		<-e.root.drawn
	}
	e.app.PostEvent(evNext{})
	deadline := time.After(10 * time.Second)
	for {
		select {
		case got := <-e.root.drawn:
			if got == g {
				goto ping
			}
		case <-deadline:
			return false
		}
	}
ping:
	e.n++
	e.app.PostEvent(evPing{e.n})
	for {
		select {
		case got := <-e.root.pinged:
			if got == e.n {
				return true
			}
		case <-deadline:
			return false
		}
	}
}

func runRender(w *harness.W, e *renv, c rcase, sample bool) bool {
	cj, _ := json.Marshal(c)
	w.Begin(string(cj))
	defer w.End()
	w.Case(string(cj))
	e.root.mu.Lock()
	e.root.inner, e.root.surf = nil, nil
	var log []string
	if c.Tree != nil {
		s := c.Tree.surface()
		e.root.surf = &s
	} else {
		e.root.inner = build(*c.Widget, &log, false)
	}
	e.root.mu.Unlock()
	if !e.frame() {
		w.Inconclusive("frame-not-rendered")
		return false
	}
	e.root.mu.Lock()
	s := e.root.last
	e.root.mu.Unlock()
	sh := vxh.NewShadow(e.cols, e.rows)
	painted := 0
	paint(sh, s, 0, 0, rect{0, 0, e.cols, e.rows}, &painted)
	var mm []vxh.Mismatch
	e.con.With(func() { mm = vxh.Compare(sh, e.term, widthtab.Unicode, false, false, 4) })
	w.Count("frames_compared", 1)
	w.Count("cells_painted_by_model", int64(painted))
	if c.Tree != nil {
		w.Count("synthetic_trees", 1)
	} else {
		w.Count("widget_trees_rendered", 1)
	}
	if len(mm) > 0 {
		var d []string
		for _, m := range mm {
			d = append(d, m.String())
		}
		kind := "render:" + mm[0].Kind
		w.Violation(kind, fmt.Sprintf("terminal %dx%d: the rendered frame differs from the independent painter: %s", e.cols, e.rows, strings.Join(d, "; ")), c, strings.Join(d, "; "), "each child at its offset, clipped to its ancestors, ascending z")
		return true
	}
	if sample {
		w.Sample(c)
	}
	return true
}

func genRTree(r gen.R, cols, rows int) *rnode {
	id := 0
	var mk func(depth, pw, ph int) rnode
	mk = func(depth, pw, ph int) rnode {
		n := rnode{ID: id, Sparse: r.Intn(4) == 0, Wide: r.Intn(3) == 0}
		id++
		n.W = r.Intn(pw + 3)
		n.H = r.Intn(ph + 2)
		n.Col = r.Intn(pw+6) - 3
		n.Row = r.Intn(ph+4) - 2
		if depth < 3 {
			k := r.Intn(4)
			zs := r.Perm(k + 3)
			for i := 0; i < k; i++ {
				c := mk(depth+1, max(n.W, 1), max(n.H, 1))
				c.Z = zs[i] - 2
				n.Children = append(n.Children, c)
			}
		}
		return n
	}
	root := mk(0, cols, rows)
	root.Col, root.Row = 0, 0
	if r.Intn(3) > 0 {
		root.W, root.H = cols, rows
	} else {
		root.W, root.H = cols+r.Intn(5), rows+r.Intn(3)
	}
	return &root
}

func (c check) Run(w *harness.W, b harness.Batch) {
	var s spec
	json.Unmarshal(b.Spec, &s)
	r := gen.New(b.Seed)
	switch s.Kind {
	case "addressing":
		for _, sz := range addrSizes {
			W, H := sz[0], sz[1]
			ac := addrCase{W: W, H: H}
			xs := []int{0, 1, W - 2, W - 1, W, W + 1, 255, 256, 65535}
			ys := []int{0, 1, H - 2, H - 1, H, H + 1, 255, 256, 65535}
			for _, x := range xs {
				for _, y := range ys {
					if x >= 0 && y >= 0 && x <= 65535 && y <= 65535 {
						ac.Writes = append(ac.Writes, [2]int{x, y})
					}
				}
			}
			for i := 0; i < 60; i++ {
				ac.Writes = append(ac.Writes, [2]int{r.Intn(W + 3), r.Intn(H + 3)})
			}
			runAddressing(w, ac)
		}
	case "widgets":
		k := 0
		kinds := []string{"text-soft", "text-hard", "rich-soft", "rich-hard", "textfield", "center", "button", "list", "list-cursor"}
		for _, kind := range kinds {
			for _, cn := range contentNames {
				for _, W := range dims {
					for _, H := range dims {
						k++
						if k%s.Of != s.Part {
							continue
						}
						if (cn == "huge" || cn == "hugelines") && strings.HasPrefix(kind, "rich") && (W > 300 || W < 16) ||
							(cn == "huge" || cn == "hugelines") && strings.HasPrefix(kind, "list") && W < 16 {
							// RichText's scanner is quadratic in the text length when words are
							// longer than the line (108 s for this content at width 2): finite, so
							// not a contract violation; kept out so that the hang rule stays sound
							w.Count("skipped_quadratic_but_finite", 1)
							continue
						}
						n := wnode{Kind: kind, Content: cn}
						switch kind {
						case "center":
							n.Children = []wnode{{Kind: "text-soft", Content: cn}}
						case "list", "list-cursor":
							n.Children = []wnode{{Kind: "text-soft", Content: cn}, {Kind: "text-hard", Content: "lines"}, {Kind: "rich-soft", Content: cn}}
							n.Cursor = 1
						}
						wc := wcase{Tree: n, MaxW: W, MaxH: H}
						if k%2 == 0 && cn != "huge" && cn != "hugelines" && cn != "longword" {
							// the next frames: fewer rows, fewer columns, more of both
							wc.Then = []wstep{{MaxW: W, MaxH: H / 2, Keep: -1}, {MaxW: W / 2, MaxH: H / 2, Keep: -1, Scroll: 3}, {MaxW: W, MaxH: H, Keep: 1, Scroll: -2}}
						}
						runWidget(w, wc, k%997 == 0)
					}
				}
			}
		}
	case "nestings":
		small := []int{0, 1, 2, 3, 4, 5, 8, 16, 80, 300, 65534}
		for i := 0; i < s.N; i++ {
			t := genTree(r, 0, false)
			c := wcase{Tree: t, MaxW: small[r.Intn(len(small))], MaxH: small[r.Intn(len(small))]}
			if r.Intn(4) == 0 {
				c.MinW, c.MinH = r.Intn(c.MaxW+1), r.Intn(c.MaxH+1)
			}
			for k := r.Intn(5); k > 0; k-- {
				st := wstep{MaxW: small[r.Intn(len(small))], MaxH: small[r.Intn(len(small))], Keep: -1}
				if r.Intn(2) == 0 {
					st.MaxW = c.MaxW
				}
				if r.Intn(3) == 0 {
					st.Scroll = r.Range(-8, 8)
				}
				if r.Intn(4) == 0 {
					st.Keep = r.Intn(4)
				}
				c.Then = append(c.Then, st)
			}
			runWidget(w, c, i == 0)
		}
	case "render":
		sizes := [][2]int{{24, 10}, {8, 4}, {40, 12}, {13, 7}, {30, 5}, {3, 2}, {60, 20}, {17, 9}}
		sz := sizes[s.Part%len(sizes)]
		e, err := startApp(sz[0], sz[1])
		if err != nil {
			w.Inconclusive("app-start-failed")
			return
		}
		for i := 0; i < s.N; i++ {
			var c rcase
			c.Cols, c.Rows = sz[0], sz[1]
			if i%4 == 3 {
				t := genTree(r, 0, false)
				if !legal(t, sz[0], sz[1]) {
					continue
				}
				c.Widget = &t
			} else {
				c.Tree = genRTree(r, sz[0], sz[1])
			}
			if !runRender(w, e, c, i == 0) {
				break
			}
		}
		if !e.stop() {
			w.Inconclusive("app-did-not-quit")
		}
	}
}

func (check) Finalize(tier string, m *harness.Merged) string {
	for _, k := range []string{"buffers_scanned", "draws", "frames_compared", "synthetic_trees", "widget_trees_rendered"} {
		if m.Counts[k] == 0 {
			return "monitor observed nothing: " + k
		}
	}
	return ""
}

// Replay re-executes a recorded case (any of the three monitors).
func (c check) Replay(w *harness.W, raw json.RawMessage) {
	var probe map[string]json.RawMessage
	json.Unmarshal(raw, &probe)
	if j, ok := probe["journal"]; ok {
		var s string
		json.Unmarshal(j, &s)
		raw = json.RawMessage(s)
		probe = nil
		json.Unmarshal(raw, &probe)
	}
	switch {
	case probe["cols"] != nil:
		var rc rcase
		json.Unmarshal(raw, &rc)
		e, err := startApp(rc.Cols, rc.Rows)
		if err != nil {
			fmt.Println("app start failed:", err)
			return
		}
		runRender(w, e, rc, false)
		if harness.Verbose {
			e.con.With(func() { fmt.Println(e.term.Dump()) })
		}
		e.stop()
	case probe["tree"] != nil:
		var wc wcase
		json.Unmarshal(raw, &wc)
		runWidget(w, wc, false)
	default:
		var ac addrCase
		json.Unmarshal(raw, &ac)
		if len(ac.Writes) == 0 {
			for x := 0; x <= ac.W+1; x++ {
				for y := 0; y <= ac.H+1; y++ {
					if x <= 65535 && y <= 65535 && (x < 3 || x > ac.W-2) && (y < 3 || y > ac.H-2) {
						ac.Writes = append(ac.Writes, [2]int{x, y})
					}
				}
			}
		}
		runAddressing(w, ac)
	}
}
