// Package c11: windows clip; text helpers place clusters correctly
// (DESIGN.md \u00a73 C11).
package c11

import (
	"encoding/json"
	"fmt"
	"strings"

	"git.sr.ht/~rockorager/vaxis"
	"github.com/rivo/uniseg"

	"verif/internal/gen"
	"verif/internal/harness"
	"verif/internal/refterm"
	"verif/internal/vxh"
	"verif/internal/widthtab"
)

type check struct{}

func init() { harness.Register(check{}) }

func (check) ID() string    { return "C11" }
func (check) Level() string { return "exploration" }
func (check) Rule() string {
	return "7x5 screen pre-filled with sentinels; window chains of depth 1-2 enumerated over offsets {-2..8} and sizes {-1..9} on a thinned grid (constructor and literal windows), depth 3-4 random; every drawing call (SetCell/SetStyle/Fill/Clear at coordinates in {-2..9}^2, Print/PrintTruncate/Println/Wrap over all strings up to length 4/5 of {a, wide, combining, tab, newline, space}); after Render the set of terminal cells that changed must lie in the independently computed clip, accepted cells must be at origin+offset, and text must be laid out in reading order. A case is (window chain, operation); distinct = hash of both; non-trivial = the clip is non-empty or the operation is accepted"
}
func (check) Assumptions() []string {
	return []string{
		"refterm shows what the terminal shows, including the second half of a wide glyph",
		"uniseg is trusted for segmentation of the input text; widths from widthtab",
		"documented constructor rules: negative size = to the parent's edge, oversize = clamped to the parent's edge",
	}
}

type spec struct {
	Kind string `json:"kind"`
	Part int    `json:"part"`
	Of   int    `json:"of"`
	N    int    `json:"n"`
	Len  int    `json:"len"`
}

func (check) Plan(tier string, seed int64) []harness.Batch {
	var bs []harness.Batch
	parts := 16
	L, nrand := 4, 400
	if tier == "thorough" {
		L, nrand = 5, 20000
	}
	for p := 0; p < parts; p++ {
		s, _ := json.Marshal(spec{Kind: "geometry", Part: p, Of: parts})
		bs = append(bs, harness.Batch{Name: fmt.Sprintf("geometry-%d", p), Seed: seed, Spec: s, TimeoutS: 3000})
		s, _ = json.Marshal(spec{Kind: "text", Part: p, Of: parts, Len: L})
		bs = append(bs, harness.Batch{Name: fmt.Sprintf("text-%d", p), Seed: seed, Spec: s, TimeoutS: 3000})
		s, _ = json.Marshal(spec{Kind: "random", N: nrand})
		bs = append(bs, harness.Batch{Name: fmt.Sprintf("random-%d", p), Seed: seed*7907 + int64(p), Spec: s, TimeoutS: 3000})
	}
	return bs
}

const scrCols, scrRows = 7, 5

// WinSpec is one level of a window chain.
type WinSpec struct {
	Col, Row, W, H int
	Literal        bool `json:",omitempty"`
}

type rect struct{ x0, y0, x1, y1 int } // half-open

func (r rect) empty() bool { return r.x1 <= r.x0 || r.y1 <= r.y0 }
func (r rect) has(x, y int) bool {
	return x >= r.x0 && x < r.x1 && y >= r.y0 && y < r.y1
}
func inter(a, b rect) rect {
	r := rect{max(a.x0, b.x0), max(a.y0, b.y0), min(a.x1, b.x1), min(a.y1, b.y1)}
	return r
}

// geometry computes, independently of vaxis, the absolute origin, the size and
// the clip rectangle of the last window of a chain.
func geometry(chain []WinSpec) (ox, oy, w, h int, clip rect) {
	w, h = scrCols, scrRows
	clip = rect{0, 0, scrCols, scrRows}
	for _, s := range chain {
		nw, nh := s.W, s.H
		if !s.Literal {
			if s.W < 0 || s.W+s.Col > w {
				nw = w - s.Col
			}
			if s.H < 0 || s.H+s.Row > h {
				nh = h - s.Row
			}
		}
		ox += s.Col
		oy += s.Row
		w, h = nw, nh
		clip = inter(clip, rect{ox, oy, ox + max(w, 0), oy + max(h, 0)})
	}
	return
}

func build(vx *vaxis.Vaxis, chain []WinSpec, detached bool) vaxis.Window {
	win := vx.Window()
	for i, s := range chain {
		if i == 0 && detached && s.Literal {
			win = vaxis.Window{Vx: vx, Column: s.Col, Row: s.Row, Width: s.W, Height: s.H}
			continue
		}
		if s.Literal {
			parent := win
			win = vaxis.Window{Vx: vx, Parent: &parent, Column: s.Col, Row: s.Row, Width: s.W, Height: s.H}
		} else {
			win = win.New(s.Col, s.Row, s.W, s.H)
		}
	}
	return win
}

// Op is a drawing call.
type Op struct {
	Kind string `json:"kind"` // setcell setstyle fill clear print truncate println wrap
	Col  int    `json:"col"`
	Row  int    `json:"row"`
	G    string `json:"g,omitempty"`
	Text string `json:"text,omitempty"`
	// Split > 0: the text is handed over as two segments, cut before
	// cluster number Split
	Split int `json:"split,omitempty"`
}

type ccase struct {
	Caps  uint32    `json:"caps_mask"`
	Chain []WinSpec `json:"chain"`
	Op    Op        `json:"op"`
	// Detached: the first window of the chain is a literal Window value
	// without a parent (offsets and size relative to the screen)
	Detached bool `json:"first_window_has_no_parent,omitempty"`
}

var sentinel = vxh.AppCell{G: ".", Style: vxh.AppStyle{Bg: refterm.Color{K: refterm.ColIndexed, V: 4}}}
var drawStyle = vxh.AppStyle{Fg: refterm.Color{K: refterm.ColIndexed, V: 2}, Attr: refterm.AItalic}

type env struct {
	w      *harness.W
	sess   *vxh.Session
	caps   uint32
	method widthtab.Method
	dirty  bool
}

func newEnv(w *harness.W, caps uint32) *env {
	sess, err := vxh.Start(scrCols, scrRows, refterm.CapsFromMask(caps), vaxis.Options{}, nil)
	if err != nil {
		w.Inconclusive("start-failed")
		return nil
	}
	if _, ok := sess.Sync(); !ok {
		w.Inconclusive("startup-sync-timeout")
		return nil
	}
	e := &env{w: w, sess: sess, caps: caps, dirty: true}
	e.method = widthtab.Wcwidth
	if sess.Vx.CanUnicodeCore() || sess.Vx.CanExplicitWidth() {
		e.method = widthtab.Unicode
	}
	return e
}

func (e *env) reset() {
	e.sess.Vx.Window().Fill(sentinel.ToVaxis())
	e.sess.Vx.HideCursor()
	if e.dirty {
		e.sess.Vx.Refresh()
	} else {
		e.sess.Vx.Render()
	}
	e.dirty = false
}

type tcell struct {
	x, y  int
	g     string
	w     int
	style refterm.Style
	cont  bool
}

// changed returns the terminal cells that differ from the sentinel frame.
func (e *env) changed() (out []tcell, poison string) {
	e.sess.Con.With(func() {
		t := e.sess.Term
		for y := 0; y < scrRows; y++ {
			for x := 0; x < scrCols; x++ {
				c := t.Cell(y, x)
				if c.Poison != "" {
					poison = fmt.Sprintf("(%d,%d) %s", x, y, c.Poison)
					out = append(out, tcell{x: x, y: y, g: "\u2620"})
					continue
				}
				if c.G == "." && !c.Cont && vxh.StyleDiff(sentinel.Style, c.Style, true, true) == "" {
					continue
				}
				out = append(out, tcell{x, y, c.G, c.W, c.Style, c.Cont})
			}
		}
	})
	return
}

func width(g string, m widthtab.Method) int {
	w, ok := widthtab.Lookup(g, m)
	if !ok {
		return uniseg.StringWidth(g)
	}
	return w
}

func (e *env) run(cc ccase) {
	w := e.w
	cj, _ := json.Marshal(cc)
	w.Begin(string(cj))
	defer w.End()
	e.reset()
	ox, oy, ww, wh, clip := geometry(cc.Chain)
	win := build(e.sess.Vx, cc.Chain, cc.Detached)
	if cc.Detached && len(cc.Chain) > 0 && cc.Chain[0].Literal {
		w.Count("windows_without_a_parent", 1)
	}
	// the window's own idea of its size must follow the documented rules
	gw, gh := win.Size()
	if gw != ww || gh != wh {
		w.Violation("window:size", fmt.Sprintf("window size %dx%d, documented rules give %dx%d", gw, gh, ww, wh), cc, fmt.Sprintf("%dx%d", gw, gh), fmt.Sprintf("%dx%d", ww, wh))
	}
	gx, gy := win.Origin()
	if gx != ox || gy != oy {
		w.Violation("window:origin", fmt.Sprintf("window origin (%d,%d), expected (%d,%d)", gx, gy, ox, oy), cc, fmt.Sprintf("%d,%d", gx, gy), fmt.Sprintf("%d,%d", ox, oy))
	}
	st := drawStyle.ToVaxis()
	segs := []vaxis.Segment{{Text: cc.Op.Text, Style: st}}
	if cc.Op.Split > 0 {
		cls := clusters(cc.Op.Text)
		if cc.Op.Split < len(cls) {
			segs = []vaxis.Segment{{Text: strings.Join(cls[:cc.Op.Split], ""), Style: st}, {Text: strings.Join(cls[cc.Op.Split:], ""), Style: st}}
		}
	}
	val, stack, panicked := harness.Recover(func() {
		switch cc.Op.Kind {
		case "setcell":
			win.SetCell(cc.Op.Col, cc.Op.Row, vxh.AppCell{G: cc.Op.G, Style: drawStyle}.ToVaxis())
		case "setcell-empty":
			// the zero Cell (what an untouched cell of a vxfw surface is)
			win.SetCell(cc.Op.Col, cc.Op.Row, vaxis.Cell{})
		case "setstyle":
			win.SetStyle(cc.Op.Col, cc.Op.Row, st)
		case "fill":
			win.Fill(vxh.AppCell{G: cc.Op.G, Style: drawStyle}.ToVaxis())
		case "clear":
			win.Clear()
		case "print":
			win.Print(segs...)
		case "truncate":
			win.PrintTruncate(cc.Op.Row, segs...)
		case "println":
			win.Println(cc.Op.Row, segs...)
		case "wrap":
			win.Wrap(segs...)
		}
		e.sess.Vx.Render()
	})
	e.dirty = true
	if panicked {
		w.ViolationStack("panic:"+harness.PanicKey(val, stack), "panic in drawing call: "+val, cc, val, "no panic", stack)
		return
	}
	ch, poison := e.changed()
	// a later frame in which nothing was drawn leaves the terminal as it is
	// (what the window put there stays there, nothing else is touched)
	if val2, stack2, p2 := harness.Recover(func() { e.sess.Vx.Render() }); p2 {
		w.ViolationStack("panic:"+harness.PanicKey(val2, stack2), "panic in the frame after the drawing call: "+val2, cc, val2, "no panic", stack2)
		return
	}
	if ch2, _ := e.changed(); fmt.Sprint(ch2) != fmt.Sprint(ch) {
		w.Violation("later-frame-changed-the-screen:"+cc.Op.Kind, fmt.Sprintf("a second Render without any drawing call changed the terminal: before %v, after %v", brief(ch), brief(ch2)), cc, brief(ch2), brief(ch))
		return
	}
	nontrivial := !clip.empty()
	if nontrivial {
		w.Case(string(cj))
		if len(cc.Chain) > 1 || cc.Op.Text != "" {
			w.Sample(cc)
		}
	} else {
		w.Eval(1)
	}
	w.Count("ops_"+cc.Op.Kind, 1)
	w.Count("cells_inspected", scrCols*scrRows)
	// 1. containment
	for _, c := range ch {
		if !clip.has(c.x, c.y) {
			kind := "narrow"
			if c.cont || c.w == 2 {
				kind = "wide-glyph-spill"
			}
			if c.g == "\u2620" {
				kind = "poison"
			}
			w.Violation("escape:"+cc.Op.Kind+":"+kind, fmt.Sprintf("cell (%d,%d) outside the clip [%d,%d)x[%d,%d) changed to %q %s", c.x, c.y, clip.x0, clip.x1, clip.y0, clip.y1, c.g, poison), cc, fmt.Sprintf("changed (%d,%d)", c.x, c.y), "only cells inside the window and all its ancestors change")
			return
		}
	}
	if poison != "" {
		w.Violation("poison:"+cc.Op.Kind, "terminal-specific content inside the window: "+poison, cc, poison, "no reliance on terminal-specific behaviour")
		return
	}
	get := func(x, y int) (tcell, bool) {
		for _, c := range ch {
			if c.x == x && c.y == y {
				return c, true
			}
		}
		return tcell{}, false
	}
	switch cc.Op.Kind {
	case "setcell-empty":
		// judged by the common rules above: no panic, nothing outside the clip
		return
	case "setcell", "setstyle":
		ax, ay := ox+cc.Op.Col, oy+cc.Op.Row
		inside := cc.Op.Col >= 0 && cc.Op.Row >= 0 && cc.Op.Col < ww && cc.Op.Row < wh && clip.has(ax, ay)
		gw := 1
		if cc.Op.Kind == "setcell" {
			gw = width(cc.Op.G, e.method)
		}
		if inside && gw == 2 && !clip.has(ax+1, ay) {
			// a wide glyph that does not fit: it must not spill (checked
			// above); what is shown instead is not constrained
			return
		}
		if !inside {
			if len(ch) != 0 {
				w.Violation("rejected-write-changed-screen:"+cc.Op.Kind, fmt.Sprintf("write at (%d,%d) is outside the window but %d cells changed", cc.Op.Col, cc.Op.Row, len(ch)), cc, fmt.Sprint(len(ch)), "0")
			}
			return
		}
		c, ok := get(ax, ay)
		wantG := cc.Op.G
		if cc.Op.Kind == "setstyle" {
			wantG = "."
		}
		if !ok || c.g != wantG || vxh.StyleDiff(drawStyle, c.style, true, true) != "" {
			w.Violation("accepted-cell-misplaced:"+cc.Op.Kind, fmt.Sprintf("cell written at window offset (%d,%d) should be at absolute (%d,%d); found %q there; changed=%v", cc.Op.Col, cc.Op.Row, ax, ay, c.g, brief(ch)), cc, brief(ch), fmt.Sprintf("%q at (%d,%d)", wantG, ax, ay))
			return
		}
		if len(ch) != gw {
			w.Violation("extra-cells-changed:"+cc.Op.Kind, fmt.Sprintf("%d cells changed, expected %d", len(ch), gw), cc, brief(ch), "exactly the addressed cell")
		}
	case "fill", "clear":
		wantG := cc.Op.G
		wantStyle := drawStyle
		if cc.Op.Kind == "clear" {
			wantG, wantStyle = "", vxh.AppStyle{}
		}
		if wantG == " " {
			wantG = ""
		}
		for y := clip.y0; y < clip.y1; y++ {
			for x := clip.x0; x < clip.x1; x++ {
				c, ok := get(x, y)
				g := c.g
				if g == " " {
					g = ""
				}
				if !ok || g != wantG || vxh.StyleDiff(wantStyle, c.style, true, true) != "" {
					w.Violation("fill-incomplete:"+cc.Op.Kind, fmt.Sprintf("cell (%d,%d) inside the clip not filled: %q", x, y, c.g), cc, brief(ch), "every cell of the clip filled")
					return
				}
			}
		}
	case "print", "truncate", "println", "wrap":
		e.checkText(cc, ch, ox, oy, ww, wh, clip)
	}
}

func brief(ch []tcell) string {
	var sb strings.Builder
	for i, c := range ch {
		if i > 12 {
			sb.WriteString("\u2026")
			break
		}
		fmt.Fprintf(&sb, "(%d,%d)%q ", c.x, c.y, c.g)
	}
	return sb.String()
}

type placed struct {
	g    string
	x, y int // window-relative
}

// clusters splits text as the helpers are documented to: grapheme clusters,
// a tab is 8 blanks.
func clusters(text string) []string {
	var out []string
	st := -1
	for len(text) > 0 {
		var cl string
		cl, text, _, st = uniseg.FirstGraphemeClusterInString(text, st)
		if cl == "\t" {
			for i := 0; i < 8; i++ {
				out = append(out, " ")
			}
			continue
		}
		out = append(out, cl)
	}
	return out
}

func isBreak(cl string) bool { return strings.ContainsAny(cl, "\n\r") }

// expectedPrint lays text out as the statement says: left to right, advance by
// width, new row at a line break or when the row is full. "Full" admits two
// readings, both accepted: the row is left as soon as its last column has been
// written (eager), or when the next cluster does not fit (lazy). They differ
// only in whether a line break right after a full row yields an empty row.
func expectedPrint(text string, cols, rows int, m widthtab.Method, eager bool) (out []placed, fits bool) {
	col, row := 0, 0
	fits = true
	for _, cl := range clusters(text) {
		if isBreak(cl) {
			row++
			col = 0
			continue
		}
		w := width(cl, m)
		if w > cols || w == 0 {
			return out, false
		}
		if col+w > cols {
			row++
			col = 0
		}
		if row >= rows {
			continue
		}
		out = append(out, placed{cl, col, row})
		col += w
		if eager && col >= cols {
			row++
			col = 0
		}
	}
	return out, fits
}

func (e *env) checkText(cc ccase, ch []tcell, ox, oy, ww, wh int, clip rect) {
	w := e.w
	// the placement oracle applies when the window is fully visible
	full := rect{ox, oy, ox + ww, oy + wh}
	if ww <= 0 || wh <= 0 || inter(full, clip) != full {
		return
	}
	// read the window row-major: drawn cells carry drawStyle
	var got []placed
	for y := 0; y < wh; y++ {
		for x := 0; x < ww; x++ {
			for _, c := range ch {
				if c.x == ox+x && c.y == oy+y && !c.cont {
					if vxh.StyleDiff(drawStyle, c.style, true, true) == "" {
						g := c.g
						if g == "" {
							g = " "
						}
						got = append(got, placed{g, x, y})
					}
				}
			}
		}
	}
	show := func(ps []placed) string {
		var sb strings.Builder
		for _, p := range ps {
			fmt.Fprintf(&sb, "%q@(%d,%d) ", p.g, p.x, p.y)
		}
		return sb.String()
	}
	// a terminal without grapheme clustering shows the code points of a
	// cluster one after the other (zero-width ones joined to the previous
	// cell): expectations are compared in that form
	asShown := func(ps []placed) []placed {
		if e.method != widthtab.Wcwidth {
			return ps
		}
		var ex []placed
		for _, p := range ps {
			x := p.x
			for _, rn := range p.g {
				rw, ok := widthtab.RuneWidth(rn)
				if !ok {
					rw = 1
				}
				if rw == 0 && len(ex) > 0 && ex[len(ex)-1].y == p.y {
					ex[len(ex)-1].g += string(rn)
					continue
				}
				ex = append(ex, placed{string(rn), x, p.y})
				x += rw
			}
		}
		return ex
	}
	var want []placed
	switch cc.Op.Kind {
	case "print":
		lazy, fits := expectedPrint(cc.Op.Text, ww, wh, e.method, false)
		if !fits {
			return
		}
		eager, _ := expectedPrint(cc.Op.Text, ww, wh, e.method, true)
		lazy, eager = asShown(lazy), asShown(eager)
		want = lazy
		if show(got) == show(eager) {
			want = eager
		}
	case "println", "truncate":
		if cc.Op.Row < 0 || cc.Op.Row >= wh {
			if len(got) != 0 {
				w.Violation("text:"+cc.Op.Kind+":row-outside", "row outside the window but cells drawn", cc, show(got), "nothing")
			}
			return
		}
		cls := clusters(cc.Op.Text)
		total := 0
		for _, cl := range cls {
			total += width(cl, e.method)
		}
		col := 0
		if total <= ww {
			for _, cl := range cls {
				want = append(want, placed{cl, col, cc.Op.Row})
				col += width(cl, e.method)
			}
		} else if cc.Op.Kind == "println" {
			for _, cl := range cls {
				cw := width(cl, e.method)
				if col+cw > ww {
					break
				}
				want = append(want, placed{cl, col, cc.Op.Row})
				col += cw
			}
		} else {
			// documented: "This line has mo\u2026": clusters while they and the
			// ellipsis fit, then the ellipsis
			for _, cl := range cls {
				cw := width(cl, e.method)
				if col+cw+1 > ww {
					break
				}
				want = append(want, placed{cl, col, cc.Op.Row})
				col += cw
			}
			if col < ww {
				want = append(want, placed{"\u2026", col, cc.Op.Row})
			}
		}
	case "wrap":
		// reading order, contiguity per row, nothing lost before the height
		// truncates; where rows break is the line breaker's business
		var cls []string
		unfittable := false
		for _, cl := range clusters(cc.Op.Text) {
			// a cluster wider than the window cannot be shown at all
			if isBreak(cl) {
				continue
			}
			if width(cl, e.method) <= ww {
				cls = append(cls, cl)
			} else {
				unfittable = true
			}
		}
		if e.method == widthtab.Wcwidth {
			// the terminal shows a multi-rune cluster as several cells: put them
			// together again where they spell the expected cluster
			var re []placed
			ci := 0
			for j := 0; j < len(got); j++ {
				p := got[j]
				acc := p.g
				for ci < len(cls) && acc != cls[ci] && strings.HasPrefix(cls[ci], acc) && j+1 < len(got) && got[j+1].y == p.y {
					j++
					acc += got[j].g
				}
				re = append(re, placed{acc, p.x, p.y})
				ci++
			}
			got = re
		}
		i := 0
		prevY, nextX := -1, 0
		for _, p := range got {
			if i >= len(cls) || cls[i] != p.g {
				w.Violation("text:wrap:order", "Wrap placed clusters out of order or altered them", cc, show(got), strings.Join(cls, "|"))
				return
			}
			if p.y != prevY {
				prevY, nextX = p.y, 0
			}
			if p.x != nextX {
				w.Violation("text:wrap:advance", "Wrap did not advance by the cluster width", cc, show(got), "contiguous row")
				return
			}
			nextX += width(p.g, e.method)
			i++
		}
		if i < len(cls) && prevY < wh-1 && !unfittable && !strings.ContainsAny(cc.Op.Text, "\n\r") {
			// clusters missing although rows remain: only a violation when
			// the rest would have fitted somewhere (wide cluster in a
			// 1-column window cannot)
			for _, cl := range cls[i:] {
				if width(cl, e.method) > ww {
					return
				}
			}
			w.Violation("text:wrap:lost", "Wrap lost clusters although rows remain", cc, show(got), strings.Join(cls, "|"))
		}
		return
	}
	if cc.Op.Kind != "print" {
		want = asShown(want)
	}
	if show(got) != show(want) {
		w.Violation("text:"+cc.Op.Kind+":layout", fmt.Sprintf("%s laid %q out differently from the documented rules in a %dx%d window", cc.Op.Kind, cc.Op.Text, ww, wh), cc, show(got), show(want))
	}
}

// ---------------------------------------------------------------------------

var offs = []int{-2, -1, 0, 1, 3, 6, 7, 8}
var sizes = []int{-1, 0, 1, 2, 4, 7, 8, 9}
var coords = []int{-2, -1, 0, 1, 3, 6, 7, 9}

func (c check) Run(w *harness.W, b harness.Batch) {
	var s spec
	json.Unmarshal(b.Spec, &s)
	caps := uint32(0)
	if s.Part%4 == 3 {
		caps = 1 << 1 // unicode core
	}
	e := newEnv(w, caps)
	if e == nil {
		return
	}
	defer e.sess.Close()
	r := gen.New(b.Seed + int64(s.Part))
	switch s.Kind {
	case "geometry":
		k := 0
		// depth 1: full product of the thinned grid; ops: setcell at every coordinate pair, fill, clear, setstyle
		for _, lit := range []bool{false, true} {
			for _, c0 := range offs {
				for _, r0 := range offs {
					for _, w0 := range sizes {
						for _, h0 := range sizes {
							k++
							if k%s.Of != s.Part {
								continue
							}
							chain := []WinSpec{{c0, r0, w0, h0, lit}}
							det := lit && k%2 == 0
							e.run(ccase{Detached: det, Caps: caps, Chain: chain, Op: Op{Kind: "fill", G: "f"}})
							e.run(ccase{Detached: det, Caps: caps, Chain: chain, Op: Op{Kind: "clear"}})
							// a sample of coordinates per window, all of them over the batch
							for n := 0; n < 6; n++ {
								x, y := coords[r.Intn(len(coords))], coords[r.Intn(len(coords))]
								g := []string{"x", "x", "\u4f60"}[r.Intn(3)]
								e.run(ccase{Detached: det, Caps: caps, Chain: chain, Op: Op{Kind: "setcell", Col: x, Row: y, G: g}})
							}
							x, y := coords[r.Intn(len(coords))], coords[r.Intn(len(coords))]
							e.run(ccase{Detached: det, Caps: caps, Chain: chain, Op: Op{Kind: "setstyle", Col: x, Row: y}})
							for n := 0; n < 3; n++ {
								x, y := coords[r.Intn(len(coords))], coords[r.Intn(len(coords))]
								e.run(ccase{Detached: det, Caps: caps, Chain: chain, Op: Op{Kind: "setcell-empty", Col: x, Row: y}})
							}
							// depth 2 below this window
							for n := 0; n < 3; n++ {
								c2 := WinSpec{offs[r.Intn(len(offs))], offs[r.Intn(len(offs))], sizes[r.Intn(len(sizes))], sizes[r.Intn(len(sizes))], r.Intn(4) == 0}
								ch2 := []WinSpec{chain[0], c2}
								e.run(ccase{Detached: det, Caps: caps, Chain: ch2, Op: Op{Kind: "fill", G: "g"}})
								x, y := coords[r.Intn(len(coords))], coords[r.Intn(len(coords))]
								e.run(ccase{Detached: det, Caps: caps, Chain: ch2, Op: Op{Kind: "setcell", Col: x, Row: y, G: []string{"y", "\u597d"}[r.Intn(2)]}})
							}
						}
					}
				}
			}
		}
		w.Count("exhaustive_spaces", 1)
	case "text":
		// the last one is a cluster whose width depends on the method (4 columns
		// by wcwidth, 2 with grapheme clustering)
		alpha := []string{"a", "\u4f60", "e\u0301", "\t", "\n", " ", "\r\n", "\U0001F44D\U0001F3FD"}
		n := len(alpha)
		k := 0
		for l := 1; l <= s.Len; l++ {
			cnt := 1
			for i := 0; i < l; i++ {
				cnt *= n
			}
			idx := make([]int, l)
			for q := 0; q < cnt; q++ {
				var sb strings.Builder
				single := true
				for _, i := range idx {
					sb.WriteString(alpha[i])
					if alpha[i] == "\n" || alpha[i] == "\r\n" {
						single = false
					}
				}
				text := sb.String()
				k++
				if k%s.Of == s.Part {
					// windows of every size 0..7 x 0..4 over the batch: two per string here
					for t := 0; t < 2; t++ {
						ww, wh := r.Intn(scrCols+1), r.Intn(scrRows+1)
						x0, y0 := 0, 0
						if ww < scrCols {
							x0 = r.Intn(scrCols - ww + 1)
						}
						if wh < scrRows {
							y0 = r.Intn(scrRows - wh + 1)
						}
						chain := []WinSpec{{x0, y0, ww, wh, false}}
						split := 0
						if l > 1 && t == 1 {
							split = 1 + r.Intn(l-1) // the same text as two segments
						}
						e.run(ccase{Caps: caps, Chain: chain, Op: Op{Kind: "print", Text: text, Split: split}})
						e.run(ccase{Caps: caps, Chain: chain, Op: Op{Kind: "wrap", Text: text, Split: split}})
						if single {
							row := r.Intn(scrRows+2) - 1
							e.run(ccase{Caps: caps, Chain: chain, Op: Op{Kind: "println", Row: row, Text: text, Split: split}})
							e.run(ccase{Caps: caps, Chain: chain, Op: Op{Kind: "truncate", Row: row, Text: text, Split: split}})
						}
					}
				}
				for j := l - 1; j >= 0; j-- {
					idx[j]++
					if idx[j] < n {
						break
					}
					idx[j] = 0
				}
			}
		}
		w.Count("exhaustive_spaces", 1)
	case "random":
		texts := []string{"a\U0001F44D\U0001F3FDbc d", "\U0001F469\u200d\U0001F680xy z", "hello world foo", "ab\u4f60c", "\u4f60\u597d\u4f60\u597d\u4f60", "a b  c\td", "x\ny\n\nz", "e\u0301e\u0301 e\u0301", "long-word-without-spaces and more", "\u4f60 a \u597d b"}
		for i := 0; i < s.N; i++ {
			depth := r.Range(1, 4)
			var chain []WinSpec
			for d := 0; d < depth; d++ {
				chain = append(chain, WinSpec{r.Range(-2, 8), r.Range(-2, 6), r.Range(-1, 9), r.Range(-1, 7), r.Intn(5) == 0})
			}
			kinds := []string{"setcell", "setcell", "setcell-empty", "setstyle", "fill", "clear", "print", "wrap", "println", "truncate"}
			op := Op{Kind: kinds[r.Intn(len(kinds))], Col: r.Range(-2, 9), Row: r.Range(-2, 9)}
			op.G = []string{"x", "\u4f60", "e\u0301", " "}[r.Intn(4)]
			if op.Kind == "fill" {
				op.G = []string{"x", " ", "e\u0301"}[r.Intn(3)]
			}
			op.Text = texts[r.Intn(len(texts))]
			if op.Kind == "println" || op.Kind == "truncate" {
				op.Text = strings.ReplaceAll(op.Text, "\n", " ")
			}
			if r.Intn(2) == 0 {
				op.Split = 1 + r.Intn(6)
			}
			e.run(ccase{Detached: r.Intn(2) == 0, Caps: caps, Chain: chain, Op: op})
		}
	}
}

func (check) Finalize(tier string, m *harness.Merged) string {
	for _, k := range []string{"ops_setcell", "ops_fill", "ops_print", "ops_wrap", "ops_println", "ops_truncate"} {
		if m.Counts[k] == 0 {
			return "no " + k + " observed"
		}
	}
	return ""
}

func (c check) Replay(w *harness.W, raw json.RawMessage) {
	var cc ccase
	if err := json.Unmarshal(raw, &cc); err != nil {
		fmt.Println("bad case", err)
		return
	}
	e := newEnv(w, cc.Caps)
	if e == nil {
		return
	}
	defer e.sess.Close()
	e.run(cc)
	e.sess.Con.With(func() { fmt.Print(e.sess.Term.Dump()) })
}
