// Package c15: vxfw routes events capture-target-bubble and keeps focus and
// hover consistent (DESIGN.md \u00a73 C15).
package c15

import (
	"encoding/json"
	"fmt"
	"sort"
	"strings"
	"sync"
	"time"

	"git.sr.ht/~rockorager/vaxis"
	"git.sr.ht/~rockorager/vaxis/vxfw"

	"verif/internal/gen"
	"verif/internal/harness"
	"verif/internal/memcon"
	"verif/internal/refterm"
)

type check struct{}

func init() { harness.Register(check{}) }

func (check) ID() string    { return "C15" }
func (check) Level() string { return "exploration" }
func (check) Rule() string {
	return "instrumented widget trees (depth <= 3, fan-out <= 3, random capture flags and per-phase consume policies, siblings overlapping with distinct z in a third of the trees) run under the real App.Run on an in-memory console; histories of 40 operations (key, custom event, mouse motion/press/release at random points including outside every widget, terminal focus in/out, and commands returned by the root: focus a widget with or without a redraw, redraw, refresh, nested batches, a relayout that drops the focused widget) are posted one at a time and the per-widget log of (widget, event, phase) is compared after every operation with a model: capture from the root down the focus chain (the focused widget's own capture call is optional), target, bubble up, stop at the first consumer; mouse events along the topmost chain under the pointer with the deepest widget as target; one focus-out and one focus-in per focus change; enter/leave alternating per widget, entered set = widgets under the pointer after each mouse event, empty after terminal focus-out; redraw => a frame, refresh => exactly one full repaint (bytes written), quit => Run returns. distinct = hash of (tree, history)"
}
func (check) Assumptions() []string {
	return []string{
		"events are posted through App.PostEvent (the parser is C02/C08/C09's business)",
		"the focus chain is the ancestor chain of the focused widget in the tree as last drawn",
		"with overlapping siblings, deliveries to lower siblings under the pointer are tolerated; the target and the order along the topmost chain are judged",
		"wall-clock is only used to wait for the application loop (a wait that expires is inconclusive)",
	}
}

type spec struct {
	N int `json:"n"`
}

func (check) Plan(tier string, seed int64) []harness.Batch {
	var bs []harness.Batch
	n := 60
	if tier == "thorough" {
		n = 600
	}
	for p := 0; p < 16; p++ {
		s, _ := json.Marshal(spec{N: n})
		bs = append(bs, harness.Batch{Name: fmt.Sprintf("histories-%d", p), Seed: seed*71 + int64(p), Spec: s, TimeoutS: 3000, CaseTimeoutS: 120})
	}
	return bs
}

// ---------------------------------------------------------------------------
// tree description

type node struct {
	ID      int    `json:"id"`
	W       int    `json:"w"`
	H       int    `json:"h"`
	Col     int    `json:"col"`
	Row     int    `json:"row"`
	Z       int    `json:"z"`
	Capture bool   `json:"capture,omitempty"`
	Consume string `json:"consume,omitempty"` // subset of "kc kt kb mc mt mb" (key/mouse x capture/target/bubble) and "he hl" (hover enter/leave)
	// FocusOn "t:<id>" / "b:<id>": on a key or custom event in the target /
	// bubble phase the widget returns FocusWidgetCmd(widget id) (without consuming)
	FocusOn string `json:"focus_on,omitempty"`
	// Grow: id of a child that is hidden until this widget is entered by the
	// pointer; the enter handler then shows it and returns RedrawCmd (a popup
	// that grows an entry when hovered)
	Grow int    `json:"shows_child_on_mouse_enter,omitempty"`
	Kids []node `json:"kids,omitempty"`
}

type op struct {
	Kind  string `json:"kind"` // key custom mouse term-focus-in term-focus-out cmd relayout
	Col   int    `json:"col,omitempty"`
	Row   int    `json:"row,omitempty"`
	Mouse string `json:"mouse,omitempty"` // motion press release
	Cmd   string `json:"cmd,omitempty"`   // focus:<id> focus+redraw:<id> redraw refresh refresh+redraw batch
	ID    int    `json:"id,omitempty"`
}

type hcase struct {
	Cols int  `json:"cols"`
	Rows int  `json:"rows"`
	Tree node `json:"tree"`
	Ops  []op `json:"ops"`
	// AppRoot != nil: the widget handed to App.Run is a wrapper (id 100) that
	// delegates drawing: its Draw returns the tree root's surface, so the
	// frame's top widget is not the application's root (the usual "return
	// layout.Draw(ctx)" pattern)
	AppRoot *node `json:"app_root,omitempty"`
}

const appRootID = 100

// ---------------------------------------------------------------------------
// instrumented widgets

type entry struct {
	W     int
	Ev    string // key custom mouse focus-in focus-out enter leave
	Phase string // capture target bubble
}

func (e entry) String() string { return fmt.Sprintf("%d:%s/%s", e.W, e.Ev, e.Phase) }

type world struct {
	mu      sync.Mutex
	log     []entry
	widgets map[int]vxfw.Widget
	nodes   map[int]*node
	dropped map[int]bool // widgets currently left out of the tree
	parent  map[int]int
	// delegating: the application root is a wrapper around node 0
	delegating bool
	draws      int
	pinged     chan int
	drawn      chan int
	cmdSeq     int
	cmdDone    int
	// rfAt: the frame count at each moment a focus-in handler returned a
	// RedrawCmd ("rf" widgets)
	rfAt []int
}

type (
	evCustom struct{ n int }
	evPing   struct{ n int }
	evDo     struct {
		seq int
		cmd vxfw.Command
	}
)

type tw struct {
	n    *node
	wd   *world
	root bool // the widget App.Run was given
	// delegate: Draw returns this widget's surface instead of an own one
	delegate vxfw.Widget
}

type twCap struct{ tw }

func evName(ev vaxis.Event) string {
	switch ev.(type) {
	case vaxis.Key:
		return "key"
	case evCustom:
		return "custom"
	case vaxis.Mouse:
		return "mouse"
	case vaxis.FocusIn:
		return "focus-in"
	case vaxis.FocusOut:
		return "focus-out"
	case vxfw.MouseEnter:
		return "enter"
	case vxfw.MouseLeave:
		return "leave"
	case vxfw.Init:
		return "init"
	}
	return ""
}

func (t *tw) consumes(ev string, phase string) bool {
	code := ""
	switch ev {
	case "key", "custom":
		code = "k"
	case "mouse":
		code = "m"
	case "enter":
		// a hover notification answered with ConsumeEventCmd (the stock
		// Button does that): must not leak into the routing of the mouse event
		return strings.Contains(t.n.Consume, "he")
	case "leave":
		return strings.Contains(t.n.Consume, "hl")
	default:
		return false
	}
	return strings.Contains(t.n.Consume, code+phase[:1])
}

func (t *tw) handle(ev vaxis.Event, phase string) (vxfw.Command, error) {
	switch ev := ev.(type) {
	case evPing:
		if t.root {
			select {
			case t.wd.pinged <- ev.n:
			default:
			}
			// the root sees a ping once (capture, or target/bubble)
			return vxfw.ConsumeEventCmd{}, nil
		}
		return nil, nil
	case evDo:
		if t.root {
			t.wd.mu.Lock()
			first := t.wd.cmdDone < ev.seq
			t.wd.cmdDone = ev.seq
			t.wd.mu.Unlock()
			if first {
				return vxfw.BatchCmd{ev.cmd, vxfw.ConsumeEventCmd{}}, nil
			}
		}
		return nil, nil
	}
	name := evName(ev)
	if name == "" || name == "init" {
		return nil, nil
	}
	t.wd.mu.Lock()
	t.wd.log = append(t.wd.log, entry{t.n.ID, name, phase})
	t.wd.mu.Unlock()
	if t.consumes(name, phase) {
		return vxfw.ConsumeEventCmd{}, nil
	}
	if name == "enter" && t.n.Grow > 0 {
		t.wd.mu.Lock()
		hidden := t.wd.dropped[t.n.Grow]
		if hidden {
			t.wd.dropped[t.n.Grow] = false
			t.wd.rfAt = append(t.wd.rfAt, t.wd.draws)
		}
		t.wd.mu.Unlock()
		if hidden {
			return vxfw.RedrawCmd{}, nil
		}
	}
	if name == "focus-in" && strings.Contains(t.n.Consume, "rf") {
		// a widget that repaints itself when it gets the focus
		t.wd.mu.Lock()
		t.wd.rfAt = append(t.wd.rfAt, t.wd.draws)
		t.wd.mu.Unlock()
		return vxfw.RedrawCmd{}, nil
	}
	if id, ok := focusOn(t.n, name, phase); ok {
		t.wd.mu.Lock()
		drawn := t.wd.drawnNow(id) && t.wd.widgets[id] != nil
		t.wd.mu.Unlock()
		if drawn {
			return vxfw.FocusWidgetCmd(t.wd.widgets[id]), nil
		}
	}
	return nil, nil
}

func phaseName(p vxfw.EventPhase) string {
	switch p {
	case vxfw.CapturePhase:
		return "capture"
	case vxfw.TargetPhase:
		return "target"
	}
	return "bubble"
}

func (t *tw) HandleEvent(ev vaxis.Event, p vxfw.EventPhase) (vxfw.Command, error) {
	return t.handle(ev, phaseName(p))
}

func (t *twCap) CaptureEvent(ev vaxis.Event) (vxfw.Command, error) {
	return t.handle(ev, "capture")
}

func (t *tw) self() vxfw.Widget { return t.wd.widgets[t.n.ID] }

func (t *tw) Draw(ctx vxfw.DrawContext) (vxfw.Surface, error) {
	if t.delegate != nil {
		s, err := t.delegate.Draw(ctx)
		t.wd.mu.Lock()
		t.wd.draws++
		d := t.wd.draws
		t.wd.mu.Unlock()
		select {
		case t.wd.drawn <- d:
		default:
		}
		return s, err
	}
	s := vxfw.NewSurface(uint16(t.n.W), uint16(t.n.H), t.self())
	for i := range s.Buffer {
		s.Buffer[i] = vaxis.Cell{Character: vaxis.Character{Grapheme: string(rune('a' + t.n.ID%26)), Width: 1}}
	}
	for i := range t.n.Kids {
		k := &t.n.Kids[i]
		t.wd.mu.Lock()
		gone := t.wd.dropped[k.ID]
		t.wd.mu.Unlock()
		if gone {
			continue
		}
		cs, _ := t.wd.widgets[k.ID].Draw(ctx)
		ss := vxfw.NewSubSurface(k.Col, k.Row, cs)
		ss.ZIndex = k.Z
		s.Children = append(s.Children, ss)
	}
	if t.root {
		t.wd.mu.Lock()
		t.wd.draws++
		d := t.wd.draws
		t.wd.mu.Unlock()
		select {
		case t.wd.drawn <- d:
		default:
		}
	}
	return s, nil
}

func (wd *world) drawnNow(id int) bool {
	for {
		if wd.dropped[id] {
			return false
		}
		p, ok := wd.parent[id]
		if !ok {
			return true
		}
		id = p
	}
}

func focusOn(n *node, ev, phase string) (int, bool) {
	if n.FocusOn == "" || (ev != "key" && ev != "custom") || n.FocusOn[0] != phase[0] {
		return 0, false
	}
	var id int
	fmt.Sscanf(n.FocusOn[2:], "%d", &id)
	return id, true
}

func (wd *world) build(n *node) {
	wd.nodes[n.ID] = n
	if n.Grow > 0 {
		wd.dropped[n.Grow] = true
	}
	for i := range n.Kids {
		wd.parent[n.Kids[i].ID] = n.ID
	}
	base := tw{n: n, wd: wd, root: n.ID == 0 && !wd.delegating}
	if n.Capture {
		wd.widgets[n.ID] = &twCap{base}
	} else {
		wd.widgets[n.ID] = &base
	}
	for i := range n.Kids {
		wd.build(&n.Kids[i])
	}
}

// ---------------------------------------------------------------------------
// model

type model struct {
	root    *node
	nodes   map[int]*node
	parent  map[int]int
	dropped map[int]bool
	focused int
	// focusAfter: the focus once the routing computed by route has run to its end
	focusAfter int
	endedEarly bool
	entered    map[int]bool
	mouseIn    bool
}

func (m *model) index(n *node, parent int) {
	m.nodes[n.ID] = n
	m.parent[n.ID] = parent
	if n.Grow > 0 {
		m.dropped[n.Grow] = true
	}
	for i := range n.Kids {
		m.index(&n.Kids[i], n.ID)
	}
}

func (m *model) inTree(id int) bool {
	for id != -1 {
		if m.dropped[id] {
			return false
		}
		id = m.parent[id]
	}
	return true
}

// chain returns root..id
func (m *model) chain(id int) []int {
	var c []int
	for id != -1 {
		c = append([]int{id}, c...)
		id = m.parent[id]
	}
	return c
}

// under returns the topmost chain under the point and the set of all widgets
// containing it (point relative to n's origin; clip: inside every ancestor).
func (m *model) under(n *node, col, row int, chain *[]int, all map[int]bool, onTop bool) {
	if col < 0 || row < 0 || col >= n.W || row >= n.H {
		return
	}
	all[n.ID] = true
	if onTop {
		*chain = append(*chain, n.ID)
	}
	// topmost child containing the point: highest z, later sibling on ties
	kids := make([]*node, 0, len(n.Kids))
	for i := range n.Kids {
		if !m.dropped[n.Kids[i].ID] {
			kids = append(kids, &n.Kids[i])
		}
	}
	sort.SliceStable(kids, func(i, j int) bool { return kids[i].Z < kids[j].Z })
	top := -1
	for i, k := range kids {
		c, r := col-k.Col, row-k.Row
		if c >= 0 && r >= 0 && c < k.W && r < k.H {
			top = i
		}
	}
	for i, k := range kids {
		m.under(k, col-k.Col, row-k.Row, chain, all, onTop && i == top)
	}
}

// route computes the expected deliveries for an event along a chain. The
// entries marked optional may be absent (the target's own capture call).
type exp struct {
	e        entry
	optional bool
}

func (m *model) route(chain []int, ev string) []exp {
	var out []exp
	m.focusAfter = m.focused
	code := "k"
	if ev == "mouse" {
		code = "m"
	}
	cons := func(id int, ph string) bool { return strings.Contains(m.nodes[id].Consume, code+ph) }
	// a handler that moves the focus (target and bubble phase, key/custom):
	// one focus-out and one focus-in right after its delivery; the event
	// keeps travelling along the chain it started on
	refocus := func(id int, phase string) {
		to, ok := focusOn(m.nodes[id], ev, phase)
		if !ok || m.nodes[to] == nil || !m.inTree(to) || to == m.focusAfter {
			return
		}
		out = append(out, exp{entry{m.focusAfter, "focus-out", "target"}, false}, exp{entry{to, "focus-in", "target"}, false})
		m.focusAfter = to
	}
	target := chain[len(chain)-1]
	for _, id := range chain {
		if !m.nodes[id].Capture {
			continue
		}
		out = append(out, exp{entry{id, ev, "capture"}, id == target})
		if cons(id, "c") {
			if id == target {
				// optional delivery that would end the routing: both outcomes
				// are accepted by the matcher (see match)
				out[len(out)-1].optional = true
				continue
			}
			return out
		}
	}
	out = append(out, exp{entry{target, ev, "target"}, false})
	if cons(target, "t") {
		return out
	}
	refocus(target, "target")
	for i := len(chain) - 2; i >= 0; i-- {
		out = append(out, exp{entry{chain[i], ev, "bubble"}, false})
		if cons(chain[i], "b") {
			return out
		}
		refocus(chain[i], "bubble")
	}
	return out
}

// match compares routed deliveries. tolerated widgets may appear anywhere
// (lower siblings under the pointer).
func match(m *model, got []entry, want []exp, tolerated map[int]bool, ev string) string {
	gi := 0
	m.endedEarly = false
	code := "k"
	if ev == "mouse" {
		code = "m"
	}
	stolen := false // a lower sibling under the pointer consumed the event
	next := func() *entry {
		for gi < len(got) {
			g := &got[gi]
			if tolerated != nil && tolerated[g.W] {
				if strings.Contains(m.nodes[g.W].Consume, code+g.Phase[:1]) {
					stolen = true
				}
				gi++
				continue
			}
			return g
		}
		return nil
	}
	for wi := 0; wi < len(want); wi++ {
		w := want[wi]
		g := next()
		if stolen {
			return ""
		}
		if g != nil && *g == w.e {
			gi++
			if w.optional {
				// the target's own capture call happened; if it consumes, routing ends here
				if strings.Contains(m.nodes[w.e.W].Consume, code+"c") {
					if next() != nil {
						return fmt.Sprintf("delivery %s after the event was consumed in the capture phase by %d", *next(), w.e.W)
					}
					m.endedEarly = true
					return ""
				}
			}
			continue
		}
		if w.optional {
			continue
		}
		if g == nil {
			return fmt.Sprintf("delivery %s missing", w.e)
		}
		return fmt.Sprintf("delivery %s where %s was expected", *g, w.e)
	}
	if g := next(); g != nil {
		return fmt.Sprintf("extra delivery %s", *g)
	}
	return ""
}

// ---------------------------------------------------------------------------
// environment

type env struct {
	term *refterm.Terminal
	con  *memcon.Console
	app  *vxfw.App
	wd   *world
	done chan error
	n    int
}

func start(c hcase) (*env, error) {
	e := &env{}
	e.term = refterm.New(c.Cols, c.Rows, refterm.Caps{Unicode: true, Sync: true})
	e.con = memcon.New(e.term)
	app, err := vxfw.NewApp(vaxis.Options{WithConsole: e.con, NoSignals: true})
	if err != nil {
		return nil, err
	}
	e.app = app
	e.wd = &world{widgets: map[int]vxfw.Widget{}, nodes: map[int]*node{}, dropped: map[int]bool{}, parent: map[int]int{}, pinged: make(chan int, 256), drawn: make(chan int, 4096)}
	e.done = make(chan error, 1)
	return e, nil
}

func (e *env) ping() bool {
	e.n++
	e.app.PostEvent(evPing{e.n})
	deadline := time.After(20 * time.Second)
	for {
		select {
		case got := <-e.wd.pinged:
			if got == e.n {
				return true
			}
		case <-deadline:
			return false
		}
	}
}

func (e *env) draws() int {
	e.wd.mu.Lock()
	defer e.wd.mu.Unlock()
	return e.wd.draws
}

// waitFrame waits until the root has been drawn after `since` and the frame
// has been rendered (a ping answered after the draw).
func (e *env) waitFrame(since int) bool {
	deadline := time.After(20 * time.Second)
	for e.draws() <= since {
		select {
		case <-e.wd.drawn:
		case <-time.After(5 * time.Millisecond):
		case <-deadline:
			return false
		}
	}
	return e.ping()
}

func (e *env) takeLog() []entry {
	e.wd.mu.Lock()
	defer e.wd.mu.Unlock()
	l := e.wd.log
	e.wd.log = nil
	return l
}

func (e *env) bytes() int {
	var n int
	e.con.With(func() { n = e.con.NBytes })
	return n
}

func logString(l []entry) string {
	var s []string
	for _, e := range l {
		s = append(s, e.String())
	}
	return "[" + strings.Join(s, " ") + "]"
}

// ---------------------------------------------------------------------------

func runHistory(w *harness.W, c hcase, sample bool) {
	cj, _ := json.Marshal(c)
	w.Begin(string(cj))
	defer w.End()
	w.Case(string(cj))
	e, err := start(c)
	if err != nil {
		w.Inconclusive("app-start-failed")
		return
	}
	e.wd.delegating = c.AppRoot != nil
	e.wd.build(&c.Tree)
	root := e.wd.widgets[0]
	if c.AppRoot != nil {
		c.AppRoot.ID = appRootID
		e.wd.nodes[appRootID] = c.AppRoot
		e.wd.parent[0] = appRootID
		base := tw{n: c.AppRoot, wd: e.wd, root: true, delegate: e.wd.widgets[0]}
		if c.AppRoot.Capture {
			e.wd.widgets[appRootID] = &twCap{base}
		} else {
			e.wd.widgets[appRootID] = &base
		}
		root = e.wd.widgets[appRootID]
	}
	go func() { e.done <- e.app.Run(root) }()
	quit := func() {
		e.n++
		e.wd.cmdSeq++
		e.app.PostEvent(evDo{e.wd.cmdSeq, vxfw.QuitCmd{}})
		select {
		case <-e.done:
			w.Count("quits_observed", 1)
		case <-time.After(20 * time.Second):
			w.Violation("quit:run-does-not-return", "QuitCmd returned by the root did not end App.Run within 20s", c, "Run still running", "Run returns")
		}
	}
	if !e.ping() {
		w.Inconclusive("app-loop-did-not-start")
		return
	}
	// first frame (vaxis posts a Resize at start; ask for one anyway)
	d0 := e.draws()
	e.wd.cmdSeq++
	e.app.PostEvent(evDo{e.wd.cmdSeq, vxfw.RedrawCmd{}})
	if !e.waitFrame(d0) {
		w.Inconclusive("first-frame-timeout")
		return
	}
	e.takeLog()
	m := &model{root: &c.Tree, nodes: map[int]*node{}, parent: map[int]int{}, dropped: map[int]bool{}, entered: map[int]bool{}}
	m.index(&c.Tree, -1)
	m.focused = 0
	if c.AppRoot != nil {
		m.nodes[appRootID] = c.AppRoot
		m.parent[0] = appRootID
		m.parent[appRootID] = -1
		m.focused = appRootID
	}
	// per-widget alternation of enter/leave over the whole history
	hover := map[int]bool{}
	focusLost := false
	fail := func(key, what string, i int, got []entry, want string) {
		w.Violation(key, fmt.Sprintf("op %d (%s): %s; log %s", i, c.Ops[i].Kind+c.Ops[i].Cmd+c.Ops[i].Mouse, what, logString(got)), c, logString(got), want)
	}
	for i, o := range c.Ops {
		var want []exp
		var tolerated map[int]bool
		// a widget that is not in the last frame may hold the focus until the
		// next frame (a dialog's input focused when the dialog is opened):
		// its ancestors are undefined, but it is the target of key events
		undrawnFocus := !m.inTree(m.focused)
		rootID := 0
		if c.AppRoot != nil {
			rootID = appRootID
		}
		if o.Kind == "cmd" && strings.HasPrefix(o.Cmd, "focus") && !m.inTree(o.ID) {
			w.Count("focus_given_to_a_widget_that_is_not_drawn", 1)
		}
		bytes0 := e.bytes()
		draws0 := e.draws()
		needFrame := false
		expectRefresh := false
		switch o.Kind {
		case "key":
			e.app.PostEvent(vaxis.Key{Keycode: 'x', Text: "x"})
			want = m.route(m.chain(m.focused), "key")
			if undrawnFocus {
				want = m.route([]int{rootID, m.focused}, "key")
			}
		case "custom":
			e.app.PostEvent(evCustom{i})
			want = m.route(m.chain(m.focused), "custom")
			if undrawnFocus {
				want = m.route([]int{rootID, m.focused}, "custom")
			}
		case "mouse":
			et := vaxis.EventMotion
			btn := vaxis.MouseNoButton
			switch o.Mouse {
			case "press":
				et, btn = vaxis.EventPress, vaxis.MouseLeftButton
			case "release":
				et, btn = vaxis.EventRelease, vaxis.MouseLeftButton
			}
			e.app.PostEvent(vaxis.Mouse{Col: o.Col, Row: o.Row, EventType: et, Button: btn})
		case "term-focus-in":
			e.app.PostEvent(vaxis.FocusIn{})
		case "term-focus-out":
			e.app.PostEvent(vaxis.FocusOut{})
		case "cmd":
			var cmd vxfw.Command
			switch o.Cmd {
			case "focus", "focus+redraw":
				cmd = vxfw.FocusWidgetCmd(e.wd.widgets[o.ID])
				if o.Cmd == "focus+redraw" {
					cmd = vxfw.BatchCmd{cmd, vxfw.RedrawCmd{}}
					needFrame = true
				}
			case "redraw":
				cmd = vxfw.RedrawCmd{}
				needFrame = true
			case "refresh+redraw":
				cmd = []vxfw.Command{vxfw.RefreshCmd{}, vxfw.BatchCmd{vxfw.RedrawCmd{}}}
				needFrame, expectRefresh = true, true
			case "batch":
				cmd = vxfw.BatchCmd{vxfw.BatchCmd{}, []vxfw.Command{vxfw.RedrawCmd{}, vxfw.RedrawCmd{}}, nil}
				needFrame = true
			}
			e.wd.cmdSeq++
			e.app.PostEvent(evDo{e.wd.cmdSeq, cmd})
		case "relayout":
			// drop (or restore) a subtree and redraw
			e.wd.mu.Lock()
			e.wd.dropped[o.ID] = !e.wd.dropped[o.ID]
			e.wd.mu.Unlock()
			m.dropped[o.ID] = !m.dropped[o.ID]
			e.wd.cmdSeq++
			e.app.PostEvent(evDo{e.wd.cmdSeq, vxfw.RedrawCmd{}})
			needFrame = true
		}
		if !e.ping() {
			w.Inconclusive("op-not-acknowledged")
			quit()
			return
		}
		if needFrame {
			if !e.waitFrame(draws0) {
				fail("redraw:no-frame", "a RedrawCmd was returned but the root was not drawn again within 20s", i, nil, "a frame")
				quit()
				return
			}
			w.Count("frames_after_redraw", 1)
		}
		// a RedrawCmd returned by a focus-in handler takes effect: a frame
		// is drawn after it, also when the handler ran inside a frame (the
		// focus falling back to the root)
		rfFramed := false
		for round := 0; round < 6; round++ {
			e.wd.mu.Lock()
			rfAt := e.wd.rfAt
			e.wd.rfAt = nil
			e.wd.mu.Unlock()
			if len(rfAt) == 0 {
				break
			}
			rfFramed = true
			last := rfAt[len(rfAt)-1]
			if !e.waitFrame(last) {
				fail("redraw:no-frame-after-focus-handler", fmt.Sprintf("a focus-in handler returned RedrawCmd when %d frames had been drawn; no further frame followed within 20s", last), i, nil, "a frame")
				quit()
				return
			}
			w.Count("redraw_commands_from_focus_handlers", int64(len(rfAt)))
		}
		got := e.takeLog()
		w.Count("ops", 1)
		w.Count("deliveries_logged", int64(len(got)))
		w.Distinct("op_kinds", o.Kind+":"+o.Cmd+o.Mouse)

		// hover bookkeeping over everything logged
		var routed []entry
		for _, g := range got {
			switch g.Ev {
			case "enter":
				if hover[g.W] {
					fail("hover:enter-twice", fmt.Sprintf("widget %d got a second mouse-enter without a leave in between", g.W), i, got, "enter and leave alternate")
					quit()
					return
				}
				hover[g.W] = true
			case "leave":
				if !hover[g.W] {
					fail("hover:leave-without-enter", fmt.Sprintf("widget %d got a mouse-leave without being entered", g.W), i, got, "enter and leave alternate")
					quit()
					return
				}
				hover[g.W] = false
			default:
				routed = append(routed, g)
			}
		}
		switch o.Kind {
		case "term-focus-out":
			focusLost = true
		case "term-focus-in", "mouse":
			focusLost = false
		}
		if focusLost {
			// the terminal focus has left and neither it nor the pointer came
			// back: nothing may be (or become) hovered, whatever is redrawn
			for id, h := range hover {
				if h {
					fail("hover:entered-while-terminal-unfocused", fmt.Sprintf("widget %d is hovered although the terminal focus left and no mouse or focus event has arrived since", id), i, got, "all hover notifications closed until the pointer or the focus comes back")
					quit()
					return
				}
			}
		}
		// widgets that showed a hidden child when they were entered (the
		// model follows what the log says about enters; that the right
		// widgets are entered is judged by the entered-set rule)
		var toggles []int
		for _, g := range got {
			if n := m.nodes[g.W]; g.Ev == "enter" && n != nil && n.Grow > 0 && m.dropped[n.Grow] {
				toggles = append(toggles, n.Grow)
			}
		}
		applyToggles := func() {
			for _, id := range toggles {
				m.dropped[id] = false
				w.Count("children_shown_by_a_hover_handler", 1)
			}
			toggles = nil
		}
		switch o.Kind {
		case "mouse":
			var chain []int
			all := map[int]bool{}
			m.under(&c.Tree, o.Col, o.Row, &chain, all, true)
			m.mouseIn = true
			if len(chain) > 0 {
				want = m.route(chain, "mouse")
				tolerated = map[int]bool{}
				for id := range all {
					tolerated[id] = true
				}
				for _, id := range chain {
					delete(tolerated, id)
				}
				w.Max("hit_chain_depth", int64(len(chain)))
				if len(tolerated) > 0 {
					w.Count("mouse_events_over_overlapping_siblings", 1)
				}
			}
			if len(toggles) > 0 {
				// the event was routed through the layout before the handler
				// changed it; the frame the handler asked for has been drawn
				// since, and the pointer rests on the new layout
				applyToggles()
				all = map[int]bool{}
				var after []int
				m.under(&c.Tree, o.Col, o.Row, &after, all, true)
			}
			// entered set: exactly the widgets under the pointer
			for id := range m.nodes {
				if hover[id] != all[id] {
					state := "is not hovered although it is under the pointer"
					if hover[id] {
						state = "is still hovered although the pointer is elsewhere"
					}
					fail("hover:entered-set", fmt.Sprintf("after a mouse event at (%d,%d) widget %d %s", o.Col, o.Row, id, state), i, got, "hovered set = widgets under the pointer")
					quit()
					return
				}
			}
		case "term-focus-out":
			m.mouseIn = false
			for id, h := range hover {
				if h {
					fail("hover:not-closed-on-focus-out", fmt.Sprintf("terminal focus left but widget %d never got its mouse-leave", id), i, got, "all entered widgets get a leave")
					quit()
					return
				}
			}
		case "cmd":
			if o.Cmd == "focus" || o.Cmd == "focus+redraw" {
				if o.ID != m.focused {
					want = []exp{{entry{m.focused, "focus-out", "target"}, false}, {entry{o.ID, "focus-in", "target"}, false}}
					m.focused = o.ID
				}
			}
		}
		applyToggles()
		if (o.Kind == "mouse" || o.Kind == "term-focus-in" || o.Kind == "term-focus-out") && rfFramed && !m.inTree(m.focused) {
			// a hover handler asked for a frame, and in that frame the
			// focus fell back to the root (the focused widget is not drawn):
			// not part of the routing of the mouse event
			var keep []entry
			for _, g := range routed {
				if g.Ev != "focus-out" && g.Ev != "focus-in" {
					keep = append(keep, g)
				}
			}
			routed = keep
			m.focused = rootID
		}
		if o.Kind == "relayout" || needFrame || (rfFramed && o.Kind == "cmd") {
			// after a frame the focus falls back to the root when the
			// focused widget is no longer drawn
			if !m.inTree(m.focused) {
				rootID := 0
				if c.AppRoot != nil {
					rootID = appRootID
				}
				want = append(want, exp{entry{m.focused, "focus-out", "target"}, false}, exp{entry{rootID, "focus-in", "target"}, false})
				m.focused = rootID
			}
			if o.Kind == "relayout" && m.mouseIn {
				// hover follows the new layout: not modelled step by step, only alternation
				w.Count("relayouts_with_pointer_inside", 1)
			}
		}
		if undrawnFocus && (o.Kind == "key" || o.Kind == "custom") {
			w.Count("events_routed_to_a_focused_widget_that_is_not_drawn", 1)
		}
		if d := match(m, routed, want, tolerated, map[bool]string{true: "mouse", false: "key"}[o.Kind == "mouse"]); d != "" {
			var ws []string
			for _, x := range want {
				s := x.e.String()
				if x.optional {
					s = "(" + s + ")"
				}
				ws = append(ws, s)
			}
			kind := o.Kind
			if o.Kind == "cmd" {
				kind = "focus-change"
			}
			fail("routing:"+kind, d+fmt.Sprintf(" (focused widget %d, expected deliveries [%s])", m.focused, strings.Join(ws, " ")), i, got, "["+strings.Join(ws, " ")+"]")
			quit()
			return
		}
		if (o.Kind == "key" || o.Kind == "custom") && !m.endedEarly && m.focusAfter != m.focused {
			m.focused = m.focusAfter
			w.Count("focus_changes_by_handlers_mid_routing", 1)
		}
		if expectRefresh {
			wrote := e.bytes() - bytes0
			w.Count("refresh_frames", 1)
			if wrote < c.Cols*c.Rows {
				fail("refresh:no-full-repaint", fmt.Sprintf("RefreshCmd + RedrawCmd wrote %d bytes on a %dx%d screen filled with text", wrote, c.Cols, c.Rows), i, got, "a full repaint")
				quit()
				return
			}
		} else if needFrame && o.Kind == "cmd" && o.Cmd != "focus+redraw" {
			wrote := e.bytes() - bytes0
			if wrote >= c.Cols*c.Rows && c.Cols*c.Rows > 60 {
				fail("refresh:repeated", fmt.Sprintf("a plain redraw of an unchanged tree wrote %d bytes: the refresh flag was applied again", wrote), i, got, "refresh takes effect once")
				quit()
				return
			}
		}
	}
	quit()
	if sample {
		w.Sample(c)
	}
}

// ---------------------------------------------------------------------------
// generators

func genTree(r gen.R, cols, rows int, overlap bool) node {
	id := 0
	pol := func() string {
		var p []string
		for _, x := range []string{"kc", "kt", "kb", "mc", "mt", "mb", "he", "hl", "rf"} {
			if r.Intn(7) == 0 {
				p = append(p, x)
			}
		}
		return strings.Join(p, " ")
	}
	var mk func(depth, w, h int) node
	mk = func(depth, w, h int) node {
		n := node{ID: id, W: w, H: h, Capture: r.Intn(3) == 0, Consume: pol()}
		if r.Intn(5) == 0 {
			n.FocusOn = fmt.Sprintf("%s:%d", []string{"t", "b"}[r.Intn(2)], r.Intn(8))
		}
		id++
		if depth >= 3 || w < 2 || h < 1 {
			return n
		}
		k := r.Intn(4)
		if overlap {
			zs := r.Perm(k + 2)
			for i := 0; i < k; i++ {
				cw, ch := 1+r.Intn(w), 1+r.Intn(h)
				c := mk(depth+1, cw, ch)
				c.Col, c.Row = r.Intn(w+2)-1, r.Intn(h+1)
				c.Z = zs[i] - 1
				n.Kids = append(n.Kids, c)
			}
		} else if k > 0 {
			// side by side slices
			sw := w / k
			for i := 0; i < k && sw > 0; i++ {
				cw, ch := 1+r.Intn(sw), 1+r.Intn(h)
				c := mk(depth+1, cw, ch)
				c.Col, c.Row = i*sw+r.Intn(sw-cw+1), r.Intn(h-ch+1)
				n.Kids = append(n.Kids, c)
			}
		}
		if len(n.Kids) > 0 && r.Intn(5) == 0 {
			k := &n.Kids[r.Intn(len(n.Kids))]
			// one level only: nothing inside the hidden child shows further
			// children (what a handler changes inside a frame is seen by the
			// hover bookkeeping only at the next mouse event)
			var clear func(x *node)
			clear = func(x *node) {
				x.Grow = 0
				for i := range x.Kids {
					clear(&x.Kids[i])
				}
			}
			clear(k)
			n.Grow = k.ID
			n.Consume = strings.TrimSpace(strings.ReplaceAll(n.Consume, "he", ""))
		}
		return n
	}
	root := mk(0, cols-r.Intn(3), rows-r.Intn(2))
	root.Consume = strings.ReplaceAll(strings.ReplaceAll(root.Consume, "kc", ""), "mc", "") // keep commands reachable
	return root
}

func ids(n *node, out *[]int) {
	*out = append(*out, n.ID)
	for i := range n.Kids {
		ids(&n.Kids[i], out)
	}
}

// growSites lists, for every widget that shows a hidden child when entered,
// the widget and the absolute top-left cell of that child.
func growSites(n *node, ox, oy int, out *[][3]int) {
	for i := range n.Kids {
		k := &n.Kids[i]
		if n.Grow == k.ID && n.ID != 0 {
			*out = append(*out, [3]int{n.ID, ox + k.Col, oy + k.Row})
		}
		growSites(k, ox+k.Col, oy+k.Row, out)
	}
}

func genOps(r gen.R, c *hcase, n int) {
	var all []int
	ids(&c.Tree, &all)
	if c.AppRoot != nil {
		all = append(all, appRootID)
	}
	var sites [][3]int
	growSites(&c.Tree, 0, 0, &sites)
	for i := 0; i < n; i++ {
		if len(sites) > 0 && i > 0 && i%13 == 5 {
			// a popup that appears under the resting pointer: it is hidden,
			// the pointer comes to rest where its hidden child will be, the
			// popup comes back (it is entered during that frame, shows its
			// child and asks for a redraw), then the button is pressed
			st := sites[r.Intn(len(sites))]
			if st[1] >= 0 && st[2] >= 0 {
				c.Ops = append(c.Ops, op{Kind: "relayout", ID: st[0]}, op{Kind: "mouse", Col: st[1], Row: st[2], Mouse: "motion"}, op{Kind: "relayout", ID: st[0]}, op{Kind: "mouse", Col: st[1], Row: st[2], Mouse: "press"})
			}
		}
		switch k := r.Intn(20); {
		case k < 4:
			c.Ops = append(c.Ops, op{Kind: "key"})
		case k < 6:
			c.Ops = append(c.Ops, op{Kind: "custom"})
		case k < 12:
			c.Ops = append(c.Ops, op{Kind: "mouse", Col: r.Intn(c.Cols+2) - 1, Row: r.Intn(c.Rows+1) - 0, Mouse: []string{"motion", "motion", "press", "release"}[r.Intn(4)]})
		case k < 13:
			c.Ops = append(c.Ops, op{Kind: "term-focus-out"})
		case k < 14:
			c.Ops = append(c.Ops, op{Kind: "term-focus-in"})
		case k < 17:
			c.Ops = append(c.Ops, op{Kind: "cmd", Cmd: []string{"focus", "focus+redraw", "focus+redraw"}[r.Intn(3)], ID: all[r.Intn(len(all))]})
		case k < 19:
			c.Ops = append(c.Ops, op{Kind: "cmd", Cmd: []string{"redraw", "refresh+redraw", "batch"}[r.Intn(3)]})
		default:
			var tree []int
			ids(&c.Tree, &tree)
			if len(tree) > 1 {
				c.Ops = append(c.Ops, op{Kind: "relayout", ID: tree[1+r.Intn(len(tree)-1)]})
			}
		}
	}
}

func (c check) Run(w *harness.W, b harness.Batch) {
	var s spec
	json.Unmarshal(b.Spec, &s)
	r := gen.New(b.Seed)
	for i := 0; i < s.N; i++ {
		hc := hcase{Cols: 12 + r.Intn(20), Rows: 4 + r.Intn(8)}
		hc.Tree = genTree(r, hc.Cols, hc.Rows, i%3 == 2)
		if i%4 == 1 {
			hc.AppRoot = &node{ID: appRootID, Capture: r.Intn(2) == 0}
		}
		genOps(r, &hc, 40)
		runHistory(w, hc, i == 0)
		// a broken router makes every history wait for its timeouts: a few
		// witnesses per batch are enough
		if w.Violations() >= 3 {
			w.Count("batches_cut_short_after_violations", 1)
			break
		}
	}
}

func (c check) Replay(w *harness.W, raw json.RawMessage) {
	var probe map[string]json.RawMessage
	json.Unmarshal(raw, &probe)
	if j, ok := probe["journal"]; ok {
		var s string
		json.Unmarshal(j, &s)
		raw = json.RawMessage(s)
	}
	var hc hcase
	json.Unmarshal(raw, &hc)
	runHistory(w, hc, false)
}

func (check) Finalize(tier string, m *harness.Merged) string {
	for _, k := range []string{"ops", "deliveries_logged", "frames_after_redraw", "refresh_frames", "quits_observed"} {
		if m.Counts[k] == 0 {
			return "monitor observed nothing: " + k
		}
	}
	return ""
}
