// Package c10: concurrent use is race-free and deadlock-free; shutdown
// completes (DESIGN.md §3 C10).
package c10

import (
	"context"
	"encoding/json"
	"fmt"
	"os"
	"regexp"
	"runtime"
	"sort"
	"strings"
	"sync"
	"sync/atomic"
	"syscall"
	"time"

	"git.sr.ht/~rockorager/vaxis"
	"git.sr.ht/~rockorager/vaxis/verifhook"
	"git.sr.ht/~rockorager/vaxis/widgets/spinner"

	"verif/internal/gen"
	"verif/internal/harness"
	"verif/internal/memcon"
	"verif/internal/refterm"
	"verif/internal/vxh"
)

type check struct{}

func init() { harness.Register(check{}) }

func (check) ID() string    { return "C10" }
func (check) Level() string { return "exploration" }
func (check) Rule() string {
	return "stress sessions under the Go race detector on an in-memory console: 2-16 producer goroutines mixing PostEvent / PostEventBlocking / SyncFunc / Resize with unique (producer, sequence) ids, 0-3 query goroutines (CursorPosition, colour queries, ClipboardPop with a deadline), terminal input arriving in bursts including lone ESC around the Escape timer and in-band resize reports, a spinner widget started/stopped/toggled from several goroutines, the main goroutine draining events, drawing and rendering (at full speed or slowly), random Suspend/Resume, Close at the end (sometimes while input is still arriving), event-queue sizes {16, 1024} (and {1, 2} for the not-draining shutdown scenario), delay points armed at random to widen windows; signal sessions with a backlog (400 keys queued behind a full queue of 1, 8 or 32 events, the signal, then the application reads again: the console must be closed and no library goroutine left); Close with keys pending while the application reads slowly and stops reading once Close has returned. Oracles: race-detector reports with a vaxis frame; per-producer order and exactly-once delivery of blocking posts; completion of Close/Suspend (else goroutine-dump evidence); goroutines created in vaxis code still alive after Close. A case is one session; distinct = hash of its parameters; interleaving diversity is measured as distinct orders of observed hook/API events"
}
func (check) Assumptions() []string {
	return []string{
		"Close/Suspend/Resume and all drawing are called from the main goroutine, as the library documents; the other goroutines only use PostEvent/PostEventBlocking/SyncFunc/Resize and the query functions",
		"a race report whose both stacks are harness code is a broken check, not a violation",
		"this family cannot speak about schedules that were not produced; the number and spread of schedules seen is reported instead",
	}
}

type spec struct {
	Kind string `json:"kind"`
	N    int    `json:"n"`
}

func (check) Plan(tier string, seed int64) []harness.Batch {
	var bs []harness.Batch
	n := 4
	if tier == "thorough" {
		n = 190
	}
	for p := 0; p < 16; p++ {
		s, _ := json.Marshal(spec{Kind: "stress", N: n})
		bs = append(bs, harness.Batch{Name: fmt.Sprintf("stress-%d", p), Seed: seed*1000003 + int64(p), Spec: s, TimeoutS: 3000, CaseTimeoutS: 240, Race: true})
	}
	for p := 0; p < 2; p++ {
		s, _ := json.Marshal(spec{Kind: "quiet-shutdown", N: 6 * n})
		bs = append(bs, harness.Batch{Name: fmt.Sprintf("quiet-shutdown-%d", p), Seed: seed*1000039 + int64(p), Spec: s, TimeoutS: 3000, CaseTimeoutS: 240, Race: true})
	}
	for p := 0; p < 2; p++ {
		s, _ := json.Marshal(spec{Kind: "early-reply", N: 5 * n})
		bs = append(bs, harness.Batch{Name: fmt.Sprintf("early-reply-%d", p), Seed: seed*1000087 + int64(p), Spec: s, TimeoutS: 3000, CaseTimeoutS: 240, Race: true})
	}
	for p := 0; p < 2; p++ {
		s, _ := json.Marshal(spec{Kind: "esc-race", N: 10 * n})
		bs = append(bs, harness.Batch{Name: fmt.Sprintf("esc-race-%d", p), Seed: seed*1000081 + int64(p), Spec: s, TimeoutS: 3000, CaseTimeoutS: 240, Race: true})
	}
	for p := 0; p < 2; p++ {
		s, _ := json.Marshal(spec{Kind: "fullqueue", N: 3})
		bs = append(bs, harness.Batch{Name: fmt.Sprintf("fullqueue-%d", p), Seed: seed*1000033 + int64(p), Spec: s, TimeoutS: 600, CaseTimeoutS: 240, Race: true})
	}
	return bs
}

type tagged struct {
	Prod, Seq int
	Blocking  bool
}

type sessCase struct {
	Caps             uint32 `json:"caps_mask"`
	QueueSize        int    `json:"queue_size"`
	Producers        int    `json:"producers"`
	PerProd          int    `json:"posts_per_producer"`
	Queries          int    `json:"query_goroutines"`
	SlowMain         bool   `json:"slow_main"`
	Suspends         int    `json:"suspend_resume_cycles"`
	InputBursts      int    `json:"input_bursts"`
	Delay            string `json:"armed_delay_point,omitempty"`
	Spinner          bool   `json:"spinner"`
	CloseDuringInput bool   `json:"close_during_input"`
	// NoCPR: the terminal never answers cursor position requests, so every
	// CursorPosition call gives up after its deadline
	NoCPR bool `json:"terminal_ignores_cursor_position_requests,omitempty"`
}

var cprRe = regexp.MustCompile(`\x1b\[\d+;\d+R`)

var traceMu sync.Mutex

func vaxisGoroutines() []string {
	buf := make([]byte, 1<<20)
	n := runtime.Stack(buf, true)
	var out []string
	for _, blk := range strings.Split(string(buf[:n]), "\n\n") {
		i := strings.Index(blk, "created by git.sr.ht/~rockorager/vaxis")
		if i < 0 {
			continue
		}
		site := blk[i+len("created by "):]
		if j := strings.IndexAny(site, " \n"); j > 0 {
			site = site[:j]
		}
		out = append(out, strings.TrimPrefix(site, "git.sr.ht/~rockorager/"))
	}
	sort.Strings(out)
	return out
}

func runSession(w *harness.W, sc sessCase, r gen.R) {
	cj, _ := json.Marshal(sc)
	w.Begin(string(cj))
	defer w.End()
	before := vaxisGoroutines()
	caps := refterm.CapsFromMask(sc.Caps)
	var setup func(*refterm.Terminal, *memcon.Console)
	if sc.NoCPR {
		setup = func(t *refterm.Terminal, c *memcon.Console) {
			c.ReplyFilter = func(rep []byte) []byte { return cprRe.ReplaceAll(rep, nil) }
		}
		w.Count("sessions_with_unanswered_cursor_requests", 1)
	}
	sess, err := vxh.Start(40, 10, caps, vaxis.Options{EventQueueSize: sc.QueueSize}, setup)
	if err != nil {
		w.Inconclusive("start-failed")
		return
	}
	vx := sess.Vx
	w.Case(string(cj))
	w.Count("sessions", 1)

	var trace []string
	var traceLock sync.Mutex
	note := func(s string) {
		traceLock.Lock()
		if len(trace) < 400 {
			trace = append(trace, s)
		}
		traceLock.Unlock()
	}
	if sc.Delay != "" {
		d := time.Duration(1+r.Intn(15)) * time.Millisecond
		var cnt int32
		verifhook.Arm(sc.Delay, func() {
			if atomic.AddInt32(&cnt, 1)%3 == 1 {
				note("hook:" + sc.Delay)
				time.Sleep(d)
			}
		})
	}
	defer verifhook.DisarmAll()

	ctx, cancel := context.WithCancel(context.Background())
	var wg sync.WaitGroup
	var syncRan int64
	var syncPosted int64
	// producers
	for p := 0; p < sc.Producers; p++ {
		wg.Add(1)
		go func(p int) {
			defer wg.Done()
			pr := gen.New(int64(p)*77 + int64(sc.PerProd))
			for i := 0; i < sc.PerProd; i++ {
				switch k := pr.Intn(10); {
				case k < 6:
					vx.PostEventBlocking(tagged{p, i, true})
				case k < 8:
					vx.PostEvent(tagged{p, i, false})
				case k < 9:
					atomic.AddInt64(&syncPosted, 1)
					vx.SyncFunc(func() { atomic.AddInt64(&syncRan, 1) })
				default:
					vx.Resize()
				}
				if pr.Intn(8) == 0 {
					runtime.Gosched()
				}
			}
			note(fmt.Sprintf("producer-done:%d", p))
		}(p)
	}
	// query goroutines
	var qwg sync.WaitGroup
	for q := 0; q < sc.Queries; q++ {
		qwg.Add(1)
		go func(q int) {
			defer qwg.Done()
			for i := 0; ctx.Err() == nil && i < 30; i++ {
				switch (q + i) % 4 {
				case 0:
					vx.CursorPosition()
					note("q:cpr")
				case 1:
					if vx.CanReportBackgroundColor() {
						vx.QueryBackground()
						note("q:bg")
					}
				case 2:
					c, cancel := context.WithTimeout(context.Background(), 30*time.Millisecond)
					vx.ClipboardPop(c)
					cancel()
					note("q:clip")
				case 3:
					if vx.CanReportColor() {
						vx.QueryColor(vaxis.IndexColor(uint8(i)))
					}
				}
				time.Sleep(time.Duration(1+i%3) * time.Millisecond)
			}
		}(q)
	}
	// terminal input
	var mouseSent int64
	var mouseGot []int
	inputDone := make(chan struct{})
	go func() {
		defer close(inputDone)
		ir := gen.New(int64(sc.InputBursts) + 5)
		for b := 0; b < sc.InputBursts && ctx.Err() == nil; b++ {
			switch ir.Intn(5) {
			case 0:
				sess.Con.Inject([]byte("\x1b")) // lone ESC, then silence or more bytes around the timer
				time.Sleep(time.Duration(ir.Intn(20)) * time.Millisecond)
				sess.Con.Inject([]byte("[A"))
			case 1:
				// keys and mouse reports; every mouse report carries its
				// number in the column field
				var sb strings.Builder
				for n := 1 + ir.Intn(30); n > 0; n-- {
					id := atomic.AddInt64(&mouseSent, 1)
					fmt.Fprintf(&sb, "k\x1b[B\x1b[<35;%d;4M", 1000+id)
				}
				sess.Con.Inject([]byte(sb.String()))
			case 2:
				if caps.InBand {
					sess.Con.SetSize(20+ir.Intn(30), 5+ir.Intn(10))
				} else {
					sess.Con.Inject([]byte("\x1b[I\x1b[O"))
				}
			case 3:
				sess.Con.Inject([]byte("\x1b[200~pasted text\x1b[201~"))
			default:
				sess.Con.Inject([]byte("abc"))
			}
			time.Sleep(time.Duration(ir.Intn(4)) * time.Millisecond)
		}
	}()
	// spinner
	var sp *spinner.Model
	if sc.Spinner {
		sp = spinner.New(vx, 2*time.Millisecond)
		for g := 0; g < 3; g++ {
			wg.Add(1)
			go func(g int) {
				defer wg.Done()
				for i := 0; i < 10; i++ {
					switch (g + i) % 3 {
					case 0:
						sp.Start()
					case 1:
						sp.Toggle()
					default:
						sp.Stop()
					}
					time.Sleep(time.Millisecond)
				}
			}(g)
		}
	}

	// main goroutine: drain, draw, render
	producersDone := make(chan struct{})
	go func() { wg.Wait(); close(producersDone) }()
	last := map[int]int{}
	delivered := map[[2]int]int{}
	var orderViol string
	suspends := sc.Suspends
	handle := func(ev vaxis.Event) {
		switch e := ev.(type) {
		case tagged:
			delivered[[2]int{e.Prod, e.Seq}]++
			if prev, ok := last[e.Prod]; ok && e.Seq <= prev && orderViol == "" {
				orderViol = fmt.Sprintf("producer %d: event %d delivered after %d", e.Prod, e.Seq, prev)
			}
			last[e.Prod] = e.Seq
		case vaxis.SyncFunc:
			e()
		case vaxis.Mouse:
			if e.Col >= 1000 {
				mouseGot = append(mouseGot, e.Col-999) // columns are reported 1-based
			}
		case vaxis.Redraw, vaxis.Resize:
			if sp != nil {
				sp.Draw(vx.Window())
			}
			vx.Window().SetCell(1, 1, vaxis.Cell{Character: vaxis.Character{Grapheme: "x", Width: 1}})
			vx.Render()
			note("render")
		}
		if sc.SlowMain {
			time.Sleep(200 * time.Microsecond)
		}
	}
	stage := 0
	finalPosted := false
	deadline := time.After(120 * time.Second)
	type final struct{}
loop:
	for {
		select {
		case ev := <-vx.Events():
			if _, ok := ev.(final); ok {
				break loop
			}
			handle(ev)
			if suspends > 0 && len(delivered)%97 == 96 && sc.QueueSize >= 16 {
				suspends--
				note("suspend")
				pending, ok := suspendResume(w, sc, sess)
				if !ok {
					cancel()
					return
				}
				for _, pev := range pending {
					if _, isFinal := pev.(final); isFinal {
						break loop
					}
					handle(pev)
				}
			}
		case <-producersDone:
			producersDone = nil
			stage = 1
			if !finalPosted {
				finalPosted = true
				go vx.PostEventBlocking(final{})
			}
		case <-deadline:
			cancel()
			w.Inconclusive("session-did-not-finish")
			return
		}
	}
	_ = stage
	cancel()
	if !sc.CloseDuringInput {
		<-inputDone
	}
	// colour queries block by contract until the terminal answers; an answer
	// lost across a Suspend leaves the helper goroutine waiting: not our concern
	qdone := make(chan struct{})
	go func() { qwg.Wait(); close(qdone) }()
	queriesOver := false
	select {
	case <-qdone:
		queriesOver = true
	case <-time.After(3 * time.Second):
		w.Count("query_goroutines_still_waiting_for_an_answer", 1)
	}
	// after the queries are over (answered, answered late or given up):
	// reports nobody is waiting for must not stall the input goroutine, and
	// keys whose encoding looks like a reply (CSI 1;2 R = Shift+F3) are keys
	if queriesOver && !sc.CloseDuringInput {
		const sentinel = '\uF8F0'
		stray := strings.Repeat("\x1b]11;rgb:1010/1010/1010\x1b\\", 2) + strings.Repeat("\x1b]10;rgb:d0d0/d0d0/d0d0\x07", 2) + strings.Repeat("\x1b]4;1;rgb:cdcd/0000/0000\x1b\\", 2)
		sess.Con.Inject([]byte(stray + "\x1b[1;2R\x1b[1;2R\x1b[1;2R" + string(sentinel)))
		f3 := 0
		got := false
		t := time.After(15 * time.Second)
	after:
		for !got {
			select {
			case ev := <-vx.Events():
				if k, ok := ev.(vaxis.Key); ok {
					if k.Keycode == sentinel {
						got = true
						continue
					}
					if k.Keycode == vaxis.KeyF03 && k.Modifiers&vaxis.ModShift != 0 {
						f3++
						continue
					}
				}
				handle(ev)
			case <-t:
				break after
			}
		}
		w.Count("post_query_input_phases", 1)
		if !got {
			dump := harness.AllStacks()
			for _, blk := range strings.Split(dump, "\n\n") {
				if strings.Contains(blk, "vaxis.(*Vaxis).handleSequence") && strings.Contains(blk, "[chan send") {
					w.ViolationStack("wedge:input-goroutine-blocked-on-unawaited-reply", "reports that no query was waiting for (two each of OSC 11, OSC 10, OSC 4) stalled the input goroutine: later keys were not delivered", sc, "sentinel key not delivered within 15s", "reports without a waiting query are dropped or buffered, input continues", blk)
					return
				}
			}
			w.Inconclusive("post-query-sentinel-timeout-without-corroboration")
			return
		}
		// everything the terminal sent before the marker key has been
		// handled: the numbered mouse reports arrived exactly once, in order
		// (a Suspend may drop input that is in flight: not judged then)
		if sc.Suspends == 0 {
			sent := int(atomic.LoadInt64(&mouseSent))
			bad := len(mouseGot) != sent
			for k := 0; k < len(mouseGot) && !bad; k++ {
				bad = mouseGot[k] != k+1
			}
			w.Count("numbered_mouse_reports_sent", int64(sent))
			if bad {
				show := mouseGot
				if len(show) > 40 {
					show = show[:40]
				}
				w.Violation("lost:mouse-report", fmt.Sprintf("%d numbered mouse reports were sent by the terminal (event queue of %d, main goroutine slow: %v), %d were delivered", sent, sc.QueueSize, sc.SlowMain, len(mouseGot)), sc, fmt.Sprint(show), fmt.Sprintf("1..%d, each once, in order", sent))
				return
			}
		}
		if f3 > 3 && !sc.NoCPR {
			// a cursor position report that arrived after its request had
			// timed out (loaded machine) is, by the protocol's own ambiguity,
			// a modified F3 key: more than three is no loss
			w.Count("late_cursor_reports_delivered_as_keys", int64(f3-3))
		} else if f3 != 3 {
			w.Violation("lost:key-taken-for-a-reply-after-the-query-was-over", fmt.Sprintf("3 Shift+F3 keys (CSI 1;2 R) typed after all cursor-position queries had returned: %d delivered", f3), sc, fmt.Sprint(f3), "3")
			return
		}
	}
	// spinner: after a processed Stop its goroutine must be gone (checked with the leak check)
	if sp != nil {
		// Stop, then a marker function queued behind it: when the marker has
		// run, the Stop has been processed
		var marker int32
		for tries := 0; tries < 50 && atomic.LoadInt32(&marker) == 0; tries++ {
			sp.Stop()
			vx.SyncFunc(func() { atomic.StoreInt32(&marker, 1) })
			t := time.After(200 * time.Millisecond)
		drain:
			for atomic.LoadInt32(&marker) == 0 {
				select {
				case ev := <-vx.Events():
					handle(ev)
				case <-t:
					break drain
				}
			}
		}
	}
	// order / conservation
	if orderViol != "" {
		w.Violation("order:per-producer-fifo", "events of one producer were delivered out of posting order: "+orderViol, sc, orderViol, "posting order")
	}
	pr := sc.Producers
	lost, dup := 0, 0
	for p := 0; p < pr; p++ {
		prr := gen.New(int64(p)*77 + int64(sc.PerProd))
		for i := 0; i < sc.PerProd; i++ {
			k := prr.Intn(10)
			if prr.Intn(8) == 0 {
			}
			n := delivered[[2]int{p, i}]
			switch {
			case k < 6:
				if n == 0 {
					lost++
				}
				if n > 1 {
					dup++
				}
			case k < 8:
				if n > 1 {
					dup++
				}
			}
		}
	}
	w.Count("tagged_events_delivered", int64(len(delivered)))
	if lost > 0 {
		w.Violation("conservation:blocking-post-lost", fmt.Sprintf("%d events posted with PostEventBlocking were never delivered", lost), sc, fmt.Sprint(lost), "0")
	}
	if dup > 0 {
		w.Violation("conservation:duplicated", fmt.Sprintf("%d events were delivered more than once", dup), sc, fmt.Sprint(dup), "0")
	}
	if atomic.LoadInt64(&syncRan) > atomic.LoadInt64(&syncPosted) {
		w.Violation("conservation:syncfunc-ran-twice", "a SyncFunc ran more than once", sc, "", "")
	}
	// shutdown
	note("close")
	if !sess.Close() {
		dump := harness.AllStacks()
		if strings.Contains(dump, "ansi.(*Parser).WaitClose") {
			w.ViolationStack("shutdown:close-never-returns", "Close did not return although the application kept reading events", sc, "blocked in WaitClose", "returns", dump[:min(len(dump), 5000)])
		} else {
			w.Inconclusive("close-timeout-without-corroboration")
		}
		return
	}
	// leak: goroutines created in vaxis code must be gone
	var after []string
	for i := 0; i < 200; i++ {
		after = vaxisGoroutines()
		if len(after) <= len(before) {
			break
		}
		time.Sleep(10 * time.Millisecond)
	}
	if len(after) > len(before) {
		extra := diffList(before, after)
		if dump := harness.AllStacks(); parkedPosting(dump) {
			// the session's reader stopped when Close returned, with the
			// queue full and an input burst still pending (open finding)
			w.ViolationStack(parkedKey, "Close returned, the application stopped reading events, and the input goroutine is still alive: it is parked in PostEventBlocking on a queue nobody reads any more: "+strings.Join(extra, ", "), sc, strings.Join(extra, ", "), "none", dump[:min(len(dump), 5000)])
			for i := 0; i < 300 && len(vaxisGoroutines()) > len(before); i++ {
				sess.DrainEvents()
				time.Sleep(5 * time.Millisecond)
			}
			return
		}
		key := "leak:" + strings.Join(extra, ",")
		if len(key) > 120 {
			key = key[:120]
		}
		w.Violation(key, "goroutines started by the library outlive Close: "+strings.Join(extra, ", "), sc, strings.Join(extra, ", "), "none")
	}
	traceLock.Lock()
	sig := strings.Join(trace, ",")
	traceLock.Unlock()
	w.Distinct("interleaving_signatures", fmt.Sprintf("%x", hash(sig)))
	w.Sample(sc)
}

func hash(s string) uint64 {
	var h uint64 = 1469598103934665603
	for i := 0; i < len(s); i++ {
		h ^= uint64(s[i])
		h *= 1099511628211
	}
	return h
}

func diffList(before, after []string) []string {
	cnt := map[string]int{}
	for _, b := range before {
		cnt[b]--
	}
	for _, a := range after {
		cnt[a]++
	}
	var out []string
	for k, n := range cnt {
		if n > 0 {
			out = append(out, fmt.Sprintf("%s x%d", k, n))
		}
	}
	sort.Strings(out)
	return out
}

func suspendResume(w *harness.W, sc sessCase, sess *vxh.Session) ([]vaxis.Event, bool) {
	done := make(chan struct{})
	go func() {
		sess.Vx.Suspend()
		sess.Vx.Resume()
		close(done)
	}()
	// The application keeps its queue drained while it suspends (without
	// drawing): Suspend with a full queue is the fullqueue scenario
	var pending []vaxis.Event
	timeout := time.After(30 * time.Second)
	for {
		select {
		case <-done:
			return pending, true
		case ev := <-sess.Vx.Events():
			pending = append(pending, ev)
		case <-timeout:
			dump := harness.AllStacks()
			if strings.Contains(dump, "ansi.(*Parser).WaitClose") {
				w.ViolationStack("shutdown:suspend-never-returns", "Suspend did not return although the event queue was being drained", sc, "blocked in WaitClose", "returns", dump[:min(len(dump), 5000)])
			} else {
				w.Inconclusive("suspend-timeout-without-corroboration")
			}
			return nil, false
		}
	}
}

// fullQueue: Close while the event queue is full and the application is not
// reading (it is inside Close).
func runFullQueue(w *harness.W, r gen.R) {
	sc := sessCase{QueueSize: []int{1, 2, 4}[r.Intn(3)], InputBursts: 1}
	cj, _ := json.Marshal(sc)
	w.Begin(string(cj))
	defer w.End()
	sess, err := vxh.Start(40, 10, refterm.Caps{}, vaxis.Options{EventQueueSize: sc.QueueSize}, nil)
	if err != nil {
		return
	}
	w.Case("fullqueue|" + string(cj))
	w.Count("fullqueue_sessions", 1)
	sess.Con.Inject([]byte(strings.Repeat("k", 100)))
	time.Sleep(30 * time.Millisecond)
	done := make(chan struct{})
	go func() { sess.Vx.Close(); close(done) }()
	select {
	case <-done:
	case <-time.After(8 * time.Second):
		dump := harness.AllStacks()
		if strings.Contains(dump, "ansi.(*Parser).WaitClose") && strings.Contains(dump, "vaxis.(*Vaxis).PostEventBlocking") {
			w.ViolationStack("shutdown:close-never-returns-with-full-queue", fmt.Sprintf("Close called while the event queue (size %d) is full never returns: the input goroutine is parked in PostEventBlocking, the caller in WaitClose", sc.QueueSize), sc, "blocked", "returns", dump[:min(len(dump), 5000)])
		} else {
			w.Inconclusive("fullqueue-close-timeout-without-corroboration")
		}
	}
}

func min(a, b int) int {
	if a < b {
		return a
	}
	return b
}

func (c check) Run(w *harness.W, b harness.Batch) {
	var s spec
	json.Unmarshal(b.Spec, &s)
	r := gen.New(b.Seed)
	switch s.Kind {
	case "stress":
		for i := 0; i < s.N; i++ {
			sc := sessCase{
				Caps:             []uint32{0, 0x1ffff, uint32(r.Int63()) & 0x1ffff}[r.Intn(3)],
				QueueSize:        []int{16, 1024, 1024}[r.Intn(3)],
				Producers:        r.Range(2, 16),
				PerProd:          r.Range(20, 200),
				Queries:          r.Intn(4),
				SlowMain:         r.Intn(3) == 0,
				Suspends:         r.Intn(3),
				InputBursts:      r.Range(5, 40),
				Spinner:          r.Intn(2) == 0,
				CloseDuringInput: r.Intn(2) == 0,
			}
			sc.NoCPR = sc.Queries > 0 && r.Intn(3) == 0
			if r.Intn(2) == 0 {
				sc.Delay = []string{"ansi.timer.fired", "ansi.timer.beforeReset", "vaxis.cpr.beforeSend", "vaxis.handleSequence", "vaxis.suspend.beforeWait"}[r.Intn(5)]
			}
			runSession(w, sc, gen.New(r.Int63()))
		}
	case "fullqueue":
		for i := 0; i < s.N; i++ {
			runFullQueue(w, gen.New(r.Int63()))
		}
	case "early-reply":
		for i := 0; i < s.N; i++ {
			if !runEarlyReply(w, gen.New(r.Int63())) {
				break
			}
		}
	case "esc-race":
		for i := 0; i < s.N; i++ {
			if !runEscRace(w, gen.New(r.Int63())) {
				break
			}
		}
	case "quiet-shutdown":
		for i := 0; i < s.N; i++ {
			if i%6 == 3 && i < 120 { // each takes seconds (the leak oracle's patience): at most 20 per batch
				if !runCloseThenStopReading(w, gen.New(r.Int63())) {
					break
				}
				continue
			}
			if i%6 == 5 {
				if !runSignalWithBacklog(w, gen.New(r.Int63())) {
					break
				}
				continue
			}
			if i%3 == 2 {
				if !runSignalThenClose(w, gen.New(r.Int63())) {
					break
				}
				continue
			}
			if !runQuietShutdown(w, gen.New(r.Int63())) {
				break
			}
		}
	}
}

// earlyCase: one goroutine asks the terminal a series of questions; the write
// of each request returns only after the terminal's answer has been read and
// dispatched by the input goroutine (slow tty, descheduled caller). Every call
// returns the terminal's answer.
type earlyCase struct {
	Caps     uint32   `json:"caps_mask"`
	LingerMs int      `json:"write_returns_ms_after_the_answer"`
	Queries  []string `json:"queries"`
}

func runEarlyReply(w *harness.W, r gen.R) bool {
	ec := earlyCase{Caps: 0x1ffff &^ (1 << 3), LingerMs: []int{2, 15, 40}[r.Intn(3)]}
	for i, n := 0, r.Range(3, 8); i < n; i++ {
		ec.Queries = append(ec.Queries, []string{"color", "fg", "bg", "cursor", "clipboard"}[r.Intn(5)])
	}
	cj, _ := json.Marshal(ec)
	w.Begin(string(cj))
	defer w.End()
	sess, err := vxh.Start(40, 10, refterm.CapsFromMask(ec.Caps), vaxis.Options{}, nil)
	if err != nil {
		w.Inconclusive("start-failed")
		return true
	}
	if _, ok := sess.Sync(); !ok {
		w.Inconclusive("startup-sync-timeout")
		return true
	}
	w.Case("early|" + string(cj))
	sess.Con.With(func() {
		sess.Term.Clipboard = "clip"
		sess.Con.PostWriteDelay = func(p []byte) time.Duration {
			for _, q := range []string{"\x1b[6n", "\x1b]10;?", "\x1b]11;?", "\x1b]4;", "\x1b]52;"} {
				if strings.Contains(string(p), q) {
					return time.Duration(ec.LingerMs) * time.Millisecond
				}
			}
			return 0
		}
	})
	wedged := false
	defer func() {
		if !wedged {
			sess.Con.With(func() { sess.Con.PostWriteDelay = nil })
			sess.Close()
		}
	}()
	for qi, q := range ec.Queries {
		done := make(chan string, 1)
		go func() {
			switch q {
			case "color":
				done <- fmt.Sprint(sess.Vx.QueryColor(vaxis.IndexColor(1)).Params())
			case "fg":
				done <- fmt.Sprint(sess.Vx.QueryForeground().Params())
			case "bg":
				done <- fmt.Sprint(sess.Vx.QueryBackground().Params())
			case "cursor":
				row, col := sess.Vx.CursorPosition()
				done <- fmt.Sprint(row, col)
			case "clipboard":
				ctx, cancel := context.WithTimeout(context.Background(), 2*time.Second)
				s, err := sess.Vx.ClipboardPop(ctx)
				cancel()
				done <- fmt.Sprintf("%q %v", s, err != nil)
			}
		}()
		var res string
		timeout := time.After(20 * time.Second)
	wait:
		for {
			select {
			case res = <-done:
				break wait
			case <-sess.Vx.Events():
			case <-timeout:
				wedged = true
				if _, alive := sess.Sync(); alive {
					for _, blk := range strings.Split(harness.AllStacks(), "\n\n") {
						if (strings.Contains(blk, "vaxis.(*Vaxis).Query") || strings.Contains(blk, "vaxis.(*Vaxis).ClipboardPop")) && strings.Contains(blk, "[chan receive") {
							w.ViolationStack("query:"+q+":answer-never-reaches-the-caller:early-reply", fmt.Sprintf("query %d (%s): the terminal answered while the caller was still inside its write (which returned %d ms later); the input loop is alive but the caller still waits after 20 s", qi, q, ec.LingerMs), ec, "caller blocked", "the answer", blk)
							return false
						}
					}
				}
				w.Inconclusive("early-reply-query-did-not-return")
				return false
			}
		}
		w.Count("queries_answered_before_the_write_returned", 1)
		var t *refterm.Terminal = sess.Term
		want := ""
		rgb := func(v uint32) string { return fmt.Sprintf("[%d %d %d]", v>>16&255, v>>8&255, v&255) }
		sess.Con.With(func() {
			switch q {
			case "color":
				want = rgb(refterm.DefaultPalette(1))
			case "fg":
				want = rgb(t.FgColor)
			case "bg":
				want = rgb(t.BgColor)
			case "clipboard":
				want = fmt.Sprintf("%q false", t.Clipboard)
			}
		})
		if q == "cursor" {
			continue // the answer races with the request's own 50 ms deadline
		}
		if res != want {
			w.Violation("query:"+q+":early-reply", fmt.Sprintf("query %d (%s): the terminal answered while the caller was still inside its write (returned %d ms later); the call returned something else than the answer", qi, q, ec.LingerMs), ec, res, want)
			return false
		}
	}
	return true
}

// escCase: a lone ESC arms the Escape timer; the timer fires, and while its
// callback has not yet taken the parser lock (held at the delay point) the
// rest of the sequence arrives and is consumed. The user typed one key: the
// result is either that key or, had the callback won, Escape followed by the
// remaining bytes as text; never both.
type escCase struct {
	Caps   uint32   `json:"caps_mask"`
	Conts  []string `json:"bytes_after_each_lone_esc"`
	Chunks bool     `json:"rest_in_single_bytes"`
}

func keyDesc(k vaxis.Key) string {
	d := fmt.Sprintf("U+%04X", k.Keycode)
	if k.Modifiers&vaxis.ModAlt != 0 {
		d += "+alt"
	}
	if k.Modifiers&vaxis.ModCtrl != 0 {
		d += "+ctrl"
	}
	return d
}

func runEscRace(w *harness.W, r gen.R) bool {
	all := []string{"[A", "x", "[1;5B", "OP", "[Z", "q"}
	ec := escCase{Caps: []uint32{0, 0x1ffff, uint32(r.Int63()) & 0x1ffff}[r.Intn(3)], Chunks: r.Intn(2) == 0}
	for i, n := 0, r.Range(2, 5); i < n; i++ {
		ec.Conts = append(ec.Conts, all[r.Intn(len(all))])
	}
	cj, _ := json.Marshal(ec)
	w.Begin(string(cj))
	defer w.End()
	sess, err := vxh.Start(40, 10, refterm.CapsFromMask(ec.Caps), vaxis.Options{}, nil)
	if err != nil {
		w.Inconclusive("start-failed")
		return true
	}
	defer sess.Close()
	defer verifhook.DisarmAll()
	if _, ok := sess.Sync(); !ok {
		w.Inconclusive("startup-sync-timeout")
		return true
	}
	w.Case("escrace|" + string(cj))
	combined := map[string]string{
		"[A":    fmt.Sprintf("U+%04X", vaxis.KeyUp),
		"x":     "U+0078+alt",
		"q":     "U+0071+alt",
		"[1;5B": fmt.Sprintf("U+%04X+ctrl", vaxis.KeyDown),
		"OP":    fmt.Sprintf("U+%04X", vaxis.KeyF01),
		"[Z":    "",
	}
	for round, cont := range ec.Conts {
		fired := make(chan struct{}, 4)
		release := make(chan struct{})
		verifhook.Arm("ansi.timer.fired", func() {
			fired <- struct{}{}
			<-release
		})
		sess.Con.Inject([]byte("\x1b"))
		select {
		case <-fired:
		case <-time.After(10 * time.Second):
			close(release)
			w.Inconclusive("escape-timer-never-fired")
			return true
		}
		// the callback is parked before the parser lock: now the rest arrives
		if ec.Chunks {
			for i := 0; i < len(cont); i++ {
				sess.Con.Inject([]byte{cont[i]})
				for k := 0; k < 2000 && sess.Con.PendingInput() > 0; k++ {
					time.Sleep(100 * time.Microsecond)
				}
			}
		} else {
			sess.Con.Inject([]byte(cont))
		}
		for k := 0; k < 20000 && sess.Con.PendingInput() > 0; k++ {
			time.Sleep(100 * time.Microsecond)
		}
		time.Sleep(3 * time.Millisecond)
		close(release)
		verifhook.Disarm("ansi.timer.fired")
		time.Sleep(2 * time.Millisecond)
		evs, ok := sess.Sync()
		if !ok {
			w.Inconclusive("esc-race-sync-timeout")
			return true
		}
		var got []string
		for _, ev := range evs {
			if k, isKey := ev.(vaxis.Key); isKey {
				got = append(got, keyDesc(k))
			}
		}
		w.Count("escape_timer_callbacks_overtaken_by_input", 1)
		alt := []string{fmt.Sprintf("U+%04X", vaxis.KeyEsc)}
		for _, c := range cont {
			alt = append(alt, fmt.Sprintf("U+%04X", c))
		}
		g := strings.Join(got, " ")
		want := combined[cont]
		if cont == "[Z" {
			// shift+tab: compare by keycode only
			if len(got) == 1 && strings.HasPrefix(got[0], fmt.Sprintf("U+%04X", vaxis.KeyTab)) {
				continue
			}
			want = fmt.Sprintf("U+%04X", vaxis.KeyTab)
		}
		if g != want && g != strings.Join(alt, " ") {
			w.Violation("esc-timer:stale-timeout-reported-after-more-input", fmt.Sprintf("round %d: ESC, then (after the Escape timer had fired but before its callback ran) %q: the keys delivered are neither the single key nor Escape followed by the bytes as text", round, cont), ec, g, want+"  (or: "+strings.Join(alt, " ")+")")
			return false
		}
	}
	return true
}

// signalCase: a termination signal makes the library shut itself down from its
// input goroutine; the application sees the QuitEvent and calls Close (its
// deferred vx.Close()) while that shutdown still waits for the terminal's
// reply. Both must complete.
type signalCase struct {
	Caps      uint32 `json:"caps_mask"`
	HoldMs    int    `json:"wake_up_reply_held_ms"`
	Signal    string `json:"signal"`
	QueueSize int    `json:"queue_size"`
}

func runSignalThenClose(w *harness.W, r gen.R) bool {
	sc := signalCase{Caps: []uint32{0, 0x1ffff, uint32(r.Int63()) & 0x1ffff}[r.Intn(3)], HoldMs: []int{0, 40, 150}[r.Intn(3)], Signal: []string{"SIGTERM", "SIGINT"}[r.Intn(2)], QueueSize: 1024}
	cj, _ := json.Marshal(sc)
	w.Begin(string(cj))
	defer w.End()
	before := vaxisGoroutines()
	t := refterm.New(40, 10, refterm.CapsFromMask(sc.Caps))
	con := memcon.New(t)
	vx, err := vaxis.New(vaxis.Options{WithConsole: con, EventQueueSize: sc.QueueSize})
	if err != nil {
		w.Inconclusive("start-failed")
		return true
	}
	sess := &vxh.Session{Term: t, Con: con, Vx: vx}
	if _, ok := sess.Sync(); !ok {
		w.Inconclusive("startup-sync-timeout")
		return true
	}
	w.Case("signal-close|" + string(cj))
	w.Count("signal_then_close_sessions", 1)
	// the wake-up query's reply is held back for a while
	con.With(func() {
		con.ReplyFilter = func(rep []byte) []byte {
			if sc.HoldMs > 0 && len(rep) > 0 {
				held := append([]byte(nil), rep...)
				time.AfterFunc(time.Duration(sc.HoldMs)*time.Millisecond, func() { con.Inject(held) })
				return nil
			}
			return rep
		}
	})
	sig := syscall.SIGTERM
	if sc.Signal == "SIGINT" {
		sig = syscall.SIGINT
	}
	syscall.Kill(os.Getpid(), sig)
	// the application's loop: on QuitEvent, Close
	gotQuit := false
	deadline := time.After(10 * time.Second)
	for !gotQuit {
		select {
		case ev := <-vx.Events():
			if _, ok := ev.(vaxis.QuitEvent); ok {
				gotQuit = true
			}
		case <-deadline:
			w.Inconclusive("no-quit-event-after-signal")
			return false
		}
	}
	done := make(chan struct{})
	go func() { vx.Close(); close(done) }()
	timeout := time.After(20 * time.Second)
	for closed := false; !closed; {
		select {
		case <-done:
			closed = true
		case <-vx.Events():
		case <-timeout:
			dump := harness.AllStacks()
			if strings.Contains(dump, "ansi.(*Parser).WaitClose") {
				w.ViolationStack("shutdown:close-never-returns:overlapping-signal-shutdown", "the application called Close on QuitEvent while the signal-triggered shutdown was still waiting for the terminal: Close did not return", sc, "blocked in WaitClose after 20s", "returns", dump[:min(len(dump), 6000)])
			} else {
				w.Inconclusive("close-timeout-without-corroboration")
			}
			return false
		}
	}
	// the input goroutine's own shutdown must complete as well
	var after []string
	for i := 0; i < 300; i++ {
		after = vaxisGoroutines()
		if len(after) <= len(before) {
			break
		}
		time.Sleep(10 * time.Millisecond)
	}
	if len(after) > len(before) {
		extra := diffList(before, after)
		key := "leak:after-signal-and-close:" + strings.Join(extra, ",")
		if len(key) > 120 {
			key = key[:120]
		}
		w.Violation(key, "goroutines started by the library are still alive 3s after the signal-triggered shutdown and the application's Close: "+strings.Join(extra, ", "), sc, strings.Join(extra, ", "), "none")
		return false
	}
	w.Sample(sc)
	return true
}

// parkedKey: the input goroutine is still there after Close returned, parked in
// PostEventBlocking on a queue nobody reads any more (open finding; the stack
// dump is the witness).
const parkedKey = "leak:input-goroutine-parked-posting-after-close"

func parkedPosting(dump string) bool {
	for _, g := range strings.Split(dump, "\n\n") {
		if strings.Contains(g, "openTty.func1") && strings.Contains(g, "PostEventBlocking") && strings.Contains(g, "chan send") {
			return true
		}
	}
	return false
}

// stopCase: keys are pending when the application calls Close; it goes on
// reading events (slowly) until Close has returned and then stops, as an
// application that is about to exit does. No library goroutine may be left.
type stopCase struct {
	QueueSize int `json:"queue_size"`
	Keys      int `json:"keys_pending_at_close"`
}

func runCloseThenStopReading(w *harness.W, r gen.R) bool {
	sc := stopCase{QueueSize: []int{1, 4, 16}[r.Intn(3)], Keys: 400}
	cj, _ := json.Marshal(sc)
	w.Begin(string(cj))
	defer w.End()
	before := vaxisGoroutines()
	t := refterm.New(40, 10, refterm.CapsFromMask(0))
	con := memcon.New(t)
	vx, err := vaxis.New(vaxis.Options{WithConsole: con, EventQueueSize: sc.QueueSize})
	if err != nil {
		w.Inconclusive("start-failed")
		return true
	}
	sess := &vxh.Session{Term: t, Con: con, Vx: vx}
	if _, ok := sess.Sync(); !ok {
		w.Inconclusive("startup-sync-timeout")
		return true
	}
	w.Case("close-then-stop-reading|" + string(cj))
	w.Count("close_then_stop_reading_sessions", 1)
	con.Inject([]byte(strings.Repeat("k", sc.Keys)))
	for i := 0; i < 200 && len(vx.Events()) < sc.QueueSize; i++ {
		time.Sleep(time.Millisecond)
	}
	done := make(chan struct{})
	go func() { vx.Close(); close(done) }()
	timeout := time.After(20 * time.Second)
	tick := time.NewTicker(time.Millisecond)
	defer tick.Stop()
	for closed := false; !closed; {
		select {
		case <-done:
			closed = true
		case <-tick.C:
			select {
			case <-vx.Events():
			default:
			}
		case <-timeout:
			dump := harness.AllStacks()
			if strings.Contains(dump, "ansi.(*Parser).WaitClose") {
				w.ViolationStack("shutdown:close-never-returns", "Close did not return although the application kept reading events", sc, "blocked in WaitClose", "returns", dump[:min(len(dump), 5000)])
			} else {
				w.Inconclusive("close-timeout-without-corroboration")
			}
			return false
		}
	}
	// the application has stopped reading
	var after []string
	for i := 0; i < 200; i++ {
		after = vaxisGoroutines()
		if len(after) <= len(before) {
			break
		}
		time.Sleep(10 * time.Millisecond)
	}
	ok := true
	if len(after) > len(before) {
		ok = false
		dump := harness.AllStacks()
		extra := diffList(before, after)
		if parkedPosting(dump) {
			w.ViolationStack(parkedKey, "Close returned, the application stopped reading events, and the input goroutine is still alive: it is parked in PostEventBlocking posting a key that was pending, on a queue nobody reads any more: "+strings.Join(extra, ", "), sc, strings.Join(extra, ", "), "none", dump[:min(len(dump), 5000)])
		} else {
			key := "leak:after-close-then-stop-reading:" + strings.Join(extra, ",")
			if len(key) > 120 {
				key = key[:120]
			}
			w.Violation(key, "goroutines started by the library are still alive 2s after Close returned: "+strings.Join(extra, ", "), sc, strings.Join(extra, ", "), "none")
		}
		// let it go, so that the next session starts from a clean slate
		for i := 0; i < 300 && len(vaxisGoroutines()) > len(before); i++ {
			select {
			case <-vx.Events():
			default:
				time.Sleep(5 * time.Millisecond)
			}
		}
	}
	if ok {
		w.Sample(sc)
	}
	return true
}

// backlogCase: a termination signal arrives while typed input is still queued
// behind a busy application: the event queue is full, the input goroutine is
// parked posting, the parser's two-slot channel is full and the parser itself
// is blocked handing over the next key. The application then reads its events
// again (it never stopped for good, which is what the open finding about a
// queue nobody drains is about). The library's own shutdown must complete: the
// console is closed and no library goroutine is left (C10-q: nothing read the
// parser's output while the signal path waited for the parser to stop).
type backlogCase struct {
	Caps      uint32 `json:"caps_mask"`
	Signal    string `json:"signal"`
	QueueSize int    `json:"queue_size"`
	Keys      int    `json:"keys_typed_before_the_signal"`
}

func runSignalWithBacklog(w *harness.W, r gen.R) bool {
	bc := backlogCase{Caps: []uint32{0, 0x1ffff}[r.Intn(2)], Signal: []string{"SIGTERM", "SIGINT"}[r.Intn(2)], QueueSize: []int{1, 8, 32}[r.Intn(3)], Keys: 400}
	cj, _ := json.Marshal(bc)
	w.Begin(string(cj))
	defer w.End()
	before := vaxisGoroutines()
	t := refterm.New(40, 10, refterm.CapsFromMask(bc.Caps))
	con := memcon.New(t)
	vx, err := vaxis.New(vaxis.Options{WithConsole: con, EventQueueSize: bc.QueueSize})
	if err != nil {
		w.Inconclusive("start-failed")
		return true
	}
	sess := &vxh.Session{Term: t, Con: con, Vx: vx}
	if _, ok := sess.Sync(); !ok {
		w.Inconclusive("startup-sync-timeout")
		return true
	}
	w.Case("signal-backlog|" + string(cj))
	w.Count("signal_with_backlog_sessions", 1)
	con.Inject([]byte(strings.Repeat("k", bc.Keys)))
	// the application is busy: wait until the queue is full (bounded wait; a
	// queue that is not full yet only makes the case easier)
	for i := 0; i < 200 && len(vx.Events()) < bc.QueueSize; i++ {
		time.Sleep(time.Millisecond)
	}
	time.Sleep(5 * time.Millisecond)
	sig := syscall.SIGTERM
	if bc.Signal == "SIGINT" {
		sig = syscall.SIGINT
	}
	syscall.Kill(os.Getpid(), sig)
	// the application reads its events again
	timeout := time.After(20 * time.Second)
	tick := time.NewTicker(2 * time.Millisecond)
	defer tick.Stop()
	for closed := false; !closed; {
		select {
		case <-vx.Events():
		case <-tick.C:
			con.With(func() { closed = con.CloseCalls > 0 })
		case <-timeout:
			dump := harness.AllStacks()
			if strings.Contains(dump, "ansi.(*Parser).WaitClose") {
				w.ViolationStack("shutdown:signal-shutdown-never-completes:input-pending-behind-the-signal", "a termination signal arrived while typed keys were queued behind a full event queue; the application went on reading events, but the library's shutdown never completed: it waits for the parser, which is blocked handing over the next key", bc, "blocked in WaitClose after 20s", "console closed", dump[:min(len(dump), 6000)])
			} else {
				w.Inconclusive("signal-shutdown-timeout-without-corroboration")
			}
			return false
		}
	}
	var after []string
	for i := 0; i < 300; i++ {
		after = vaxisGoroutines()
		if len(after) <= len(before) {
			break
		}
		select {
		case <-vx.Events():
		default:
		}
		time.Sleep(10 * time.Millisecond)
	}
	if len(after) > len(before) {
		extra := diffList(before, after)
		key := "leak:after-signal-with-backlog:" + strings.Join(extra, ",")
		if len(key) > 120 {
			key = key[:120]
		}
		w.Violation(key, "goroutines started by the library are still alive 3s after the signal-triggered shutdown: "+strings.Join(extra, ", "), bc, strings.Join(extra, ", "), "none")
		return false
	}
	w.Sample(bc)
	return true
}

// quietCase: Suspend/Resume/Close on a quiet terminal (no input but the
// terminal's own replies) whose replies arrive while the writer of the query
// is still held up in Write: the shutdown handshake may rely on nothing else.
type quietCase struct {
	Caps      uint32 `json:"caps_mask"`
	LingerMs  int    `json:"write_lingers_ms"`
	Cycles    int    `json:"suspend_resume_cycles"`
	QueueSize int    `json:"queue_size"`
	// CloseSuspended: Close is called between a Suspend and the Resume
	CloseSuspended bool `json:"close_while_suspended,omitempty"`
}

func runQuietShutdown(w *harness.W, r gen.R) bool {
	qc := quietCase{Caps: []uint32{0, 0x1ffff, uint32(r.Int63()) & 0x1ffff}[r.Intn(3)], LingerMs: []int{0, 5, 30}[r.Intn(3)], Cycles: r.Intn(3), QueueSize: []int{16, 1024}[r.Intn(2)], CloseSuspended: r.Intn(4) == 0}
	cj, _ := json.Marshal(qc)
	w.Begin(string(cj))
	defer w.End()
	sess, err := vxh.Start(40, 10, refterm.CapsFromMask(qc.Caps), vaxis.Options{EventQueueSize: qc.QueueSize}, nil)
	if err != nil {
		w.Inconclusive("start-failed")
		return true
	}
	if _, ok := sess.Sync(); !ok {
		w.Inconclusive("startup-sync-timeout")
		return true
	}
	w.Case("quiet|" + string(cj))
	w.Count("quiet_sessions", 1)
	sess.Con.With(func() {
		sess.Con.PostWriteDelay = func(p []byte) time.Duration {
			if qc.LingerMs > 0 && strings.Contains(string(p), "\x1b[c") {
				return time.Duration(qc.LingerMs) * time.Millisecond
			}
			return 0
		}
	})
	step := func(name string, f func()) bool {
		done := make(chan struct{})
		go func() { f(); close(done) }()
		timeout := time.After(20 * time.Second)
		for {
			select {
			case <-done:
				w.Count("quiet_"+name+"_completed", 1)
				return true
			case <-sess.Vx.Events():
			case <-timeout:
				dump := harness.AllStacks()
				if strings.Contains(dump, "ansi.(*Parser).WaitClose") || strings.Contains(dump, "ansi.(*Parser).Close") {
					w.ViolationStack("shutdown:"+name+"-never-returns:quiet-terminal", name+" did not return on a quiet terminal (no input but the terminal's own replies; the write of the wake-up query lingers "+fmt.Sprint(qc.LingerMs)+"ms after the terminal has answered): the shutdown handshake with the input goroutine did not complete", qc, "blocked in the parser shutdown handshake after 20s", "returns", dump[:min(len(dump), 6000)])
				} else {
					w.Inconclusive(name + "-timeout-without-corroboration")
				}
				return false
			}
		}
	}
	for i := 0; i < qc.Cycles; i++ {
		if !step("suspend", func() { sess.Vx.Suspend() }) {
			return false
		}
		if !step("resume", func() { sess.Vx.Resume() }) {
			return false
		}
	}
	if qc.CloseSuspended {
		// the application quits while it is suspended
		if !step("suspend", func() { sess.Vx.Suspend() }) {
			return false
		}
		if !step("close-while-suspended", func() { sess.Vx.Close() }) {
			return false
		}
		w.Sample(qc)
		return true
	}
	if !step("close", func() { sess.Vx.Close() }) {
		return false
	}
	w.Sample(qc)
	return true
}

func (check) Finalize(tier string, m *harness.Merged) string {
	if m.Counts["sessions"] == 0 || m.Counts["tagged_events_delivered"] == 0 {
		return "no stress session completed"
	}
	return ""
}
