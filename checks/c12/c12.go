// Package c12: a Vaxis application renders correctly inside the embedded
// terminal (DESIGN.md \u00a73 C12).
package c12

import (
	"encoding/json"
	"fmt"
	"strings"

	"git.sr.ht/~rockorager/vaxis"
	"git.sr.ht/~rockorager/vaxis/widgets/term"

	"verif/checks/c01"
	"verif/internal/gen"
	"verif/internal/harness"
	"verif/internal/memcon"
	"verif/internal/refterm"
	"verif/internal/vxh"
	"verif/internal/widthtab"
)

type check struct{}

func init() { harness.Register(check{}) }

func (check) ID() string    { return "C12" }
func (check) Level() string { return "exploration" }
func (check) Rule() string {
	return "closed loop with no reference terminal in the data path: Vaxis A runs on a fake console whose terminal is an embedded emulator Model (A's output goes through the hook into the emulator's own update path, the emulator's PTY writes are A's input, so start-up negotiation is the real one); sessions from C01's generator (frames of SetCell/SetStyle/Fill/Clear/Print/cursor ops, Render/Refresh/resize) on sizes 1x1..40x12; after every frame the application's shadow must equal the emulator snapshot (grid, cursor position, visibility, shape) and what the emulator draws into a second Vaxis B (reference terminal behind B); per session the capabilities A detected are compared with what the emulator implements (observed by feeding the feature's sequence to a fresh emulator). A case is one compared frame; distinct = hash of (size, frames so far)"
}
func (check) Assumptions() []string {
	return []string{
		"shadow comparison as in C01 (canonical layout, capability fallback for the set A detected)",
		"'implemented' is observed behaviourally on a fresh emulator: RGB/underline SGR forms change the pen, a ZWJ cluster occupies one cell, etc.",
	}
}

type spec struct {
	N int `json:"n"`
}

func (check) Plan(tier string, seed int64) []harness.Batch {
	var bs []harness.Batch
	n := 300
	if tier == "thorough" {
		n = 6000
	}
	for p := 0; p < 16; p++ {
		s, _ := json.Marshal(spec{N: n})
		b := harness.Batch{Name: fmt.Sprintf("sessions-%d", p), Seed: seed*1000003 + int64(p), Spec: s, TimeoutS: 3000, CaseTimeoutS: 150}
		if p%4 == 3 {
			// the renderer writes extended colours with semicolons
			b.Name = fmt.Sprintf("sessions-legacy-sgr-%d", p)
			b.Env = []string{"VAXIS_FORCE_LEGACY_SGR=1"}
		}
		bs = append(bs, b)
	}
	return bs
}

// emuSink adapts an emulator Model to memcon.Sink.
type emuSink struct{ m *term.Model }

func (s emuSink) Write(p []byte) (int, error) {
	term.VerifFeed(s.m, p, nil)
	return len(p), nil
}
func (s emuSink) TakeReplies() []byte { return term.VerifTakeReplies(s.m) }

type sessCase struct {
	Cols, Rows int
	Frames     []c01.Frame `json:"frames"`
	Seed       int64       `json:"seed"`
}

func toRefColor(c vaxis.Color) refterm.Color {
	p := c.Params()
	switch len(p) {
	case 1:
		return refterm.Color{K: refterm.ColIndexed, V: uint32(p[0])}
	case 3:
		return refterm.Color{K: refterm.ColRGB, V: uint32(p[0])<<16 | uint32(p[1])<<8 | uint32(p[2])}
	}
	return refterm.Color{}
}

// snapshotAsTerminal turns an emulator snapshot into a refterm grid so that
// the shared comparator can be used.
func snapshotAsTerminal(s term.VerifSnap) *refterm.Terminal {
	t := refterm.New(s.Cols, s.Rows, refterm.Caps{})
	for r := 0; r < s.Rows; r++ {
		for c := 0; c < s.Cols; c++ {
			cl := s.Cells[r][c]
			st := refterm.Style{Fg: toRefColor(cl.Style.Foreground), Bg: toRefColor(cl.Style.Background), Ul: toRefColor(cl.Style.UnderlineColor),
				Attr: vxh.FromAttr(cl.Style.Attribute), UlStyle: uint8(cl.Style.UnderlineStyle), Link: cl.Style.Hyperlink, LinkParams: cl.Style.HyperlinkParams}
			if st.Link == "" {
				st.LinkParams = ""
			}
			g := cl.Grapheme
			if g == " " {
				g = ""
			}
			w := cl.Width
			if w < 1 {
				w = 1
			}
			t.SetCellRaw(r, c, refterm.Cell{G: g, W: w, Style: st})
			for k := 1; k < w && c+k < s.Cols; k++ {
				t.SetCellRaw(r, c+k, refterm.Cell{Cont: true, Style: st})
			}
			if w > 1 {
				c += w - 1
			}
		}
	}
	return t
}

func runSession(w *harness.W, r gen.R) {
	sc := sessCase{Seed: r.Int63()}
	switch r.Intn(10) {
	case 0:
		sc.Cols, sc.Rows = 1, 1
	case 1:
		sc.Cols, sc.Rows = r.Range(20, 40), r.Range(6, 12)
	default:
		sc.Cols, sc.Rows = r.Range(2, 12), r.Range(1, 6)
	}
	cj, _ := json.Marshal(sc)
	w.Begin(string(cj))
	defer w.End()

	m, err := term.VerifNew(sc.Cols, sc.Rows)
	if err != nil {
		w.Inconclusive("verifnew-failed")
		return
	}
	defer term.VerifFree(m)
	m.Focus()
	con := memcon.NewSink(emuSink{m}, sc.Cols, sc.Rows)
	vxA, err := vaxis.New(vaxis.Options{WithConsole: con, NoSignals: true})
	if err != nil {
		w.Violation("new-failed", "vaxis.New inside the emulator failed: "+err.Error(), sc, err.Error(), "nil")
		return
	}
	sessA := &vxh.Session{Con: con, Vx: vxA}
	if _, ok := sessA.Sync(); !ok {
		w.Inconclusive("startup-sync-timeout")
		return
	}
	defer sessA.Close()
	// B: second host with a reference terminal that has everything
	capsB := refterm.Caps{Unicode: true, RGB: true, Smulx: true}
	sessB, err := vxh.Start(sc.Cols, sc.Rows, capsB, vaxis.Options{}, nil)
	if err != nil {
		w.Inconclusive("host-b-start-failed")
		return
	}
	if _, ok := sessB.Sync(); !ok {
		w.Inconclusive("host-b-sync-timeout")
		return
	}
	defer sessB.Close()

	// capability clause
	capClause(w, vxA, sc)

	method := widthtab.Wcwidth
	if vxA.CanUnicodeCore() || vxA.CanExplicitWidth() {
		method = widthtab.Unicode
	}
	rgb := vxA.CanRGB()
	// styled underlines: Vaxis has no accessor; observe what it sends for a
	// curly underline
	smulx := false
	{
		win := vxA.Window()
		win.SetCell(0, 0, vaxis.Cell{Character: vaxis.Character{Grapheme: "p", Width: 1}, Style: vaxis.Style{UnderlineStyle: vaxis.UnderlineCurly}})
		vxA.Render()
		ps := term.VerifSnapshot(m, true)
		smulx = ps.Cells[0][0].Style.UnderlineStyle == vaxis.UnderlineCurly
		win.SetCell(0, 0, vaxis.Cell{})
		vxA.Render()
		if smulx != impl["styled-underline"] {
			w.Violation("capability:styled-underline", fmt.Sprintf("styled underlines: used by Vaxis=%v, implemented by the emulator=%v", smulx, impl["styled-underline"]), sc, fmt.Sprint(smulx), fmt.Sprint(impl["styled-underline"]))
		}
	}
	app := c01.NewApplier(vxA, vxh.NewShadow(sc.Cols, sc.Rows), method)
	fr := gen.New(sc.Seed)
	cols, rows := sc.Cols, sc.Rows
	nframes := fr.Range(3, 10)
	for fi := 0; fi < nframes; fi++ {
		f := c01.GenFrame(fr, cols, rows, method, true)
		sc.Frames = append(sc.Frames, f)
		cj, _ := json.Marshal(sc)
		w.Begin(string(cj))
		val, stack, panicked := harness.Recover(func() {
			for _, o := range f.Ops {
				app.Apply(o)
			}
			switch f.End {
			case "render":
				vxA.Render()
			case "refresh":
				vxA.Refresh()
			case "resize":
				nc, nr := f.NewCols, f.NewRows
				if nc > 40 {
					nc = 40
				}
				if nr > 12 {
					nr = 12
				}
				if nc == cols && nr == rows {
					// not a size change after clamping: an ordinary frame
					vxA.Render()
					return
				}
				cols, rows = nc, nr
				term.VerifResize(m, cols, rows)
				con.SetSize(cols, rows)
				vxA.Resize()
				vxA.Render()
				sessA.DrainEvents()
				app.SetShadow(vxh.NewShadow(cols, rows))
				for _, o := range f.After {
					if o.Col < cols && o.Row < rows {
						if o.Cell != nil {
							if ew, _ := vxh.EffWidth(*o.Cell, method); o.Col+ew > cols {
								continue
							}
						}
						app.Apply(o)
					}
				}
				if vis, c, rr, _ := app.Cursor(); vis && (c >= cols || rr >= rows) {
					app.Apply(c01.Op{Op: "hidecursor"})
				}
				vxA.Render()
			}
		})
		if panicked {
			w.ViolationStack("panic:"+harness.PanicKey(val, stack), "panic during frame: "+val, sc, val, "no panic", stack)
			return
		}
		snap := term.VerifSnapshot(m, true)
		w.Count("frames_compared", 1)
		w.Count("frames_"+f.End, 1)
		if len(f.Ops) > 0 {
			w.Case(string(cj))
		} else {
			w.Eval(1)
		}
		if snap.Cols != cols || snap.Rows != rows {
			w.Violation("size", fmt.Sprintf("emulator is %dx%d, application screen %dx%d", snap.Cols, snap.Rows, cols, rows), sc, "", "")
			return
		}
		et := snapshotAsTerminal(snap)
		if mm := vxh.Compare(app.Shadow(), et, method, rgb, smulx, 3); len(mm) > 0 {
			key := "emulator-grid:" + mm[0].Kind
			if mm[0].Kind == "style" {
				key += ":" + strings.SplitN(mm[0].Detail, " ", 2)[0]
			}
			w.Violation(key, fmt.Sprintf("frame %d (%s): emulator cell differs from the application's screen: %s", fi, f.End, mm[0]), sc, mm[0].String(), "emulator grid equals the application's shadow")
			return
		}
		// cursor
		vis, ccol, crow, cshape := app.Cursor()
		if vis != snap.Modes.DECTCEM {
			w.Violation("emulator-cursor:visibility", fmt.Sprintf("frame %d: cursor requested visible=%v, emulator DECTCEM=%v", fi, vis, snap.Modes.DECTCEM), sc, fmt.Sprint(snap.Modes.DECTCEM), fmt.Sprint(vis))
			return
		}
		if vis && (snap.CursorRow != crow || snap.CursorCol != ccol || int(snap.CursorStyle) != cshape) {
			w.Violation("emulator-cursor:position-or-shape", fmt.Sprintf("frame %d: cursor requested (%d,%d) shape %d, emulator has (%d,%d) shape %d", fi, crow, ccol, cshape, snap.CursorRow, snap.CursorCol, snap.CursorStyle), sc, "", "")
			return
		}
		// B: what the emulator draws into a host window of the same size
		con2 := sessB.Con
		if cols != sessB.Term.Cols || rows != sessB.Term.Rows {
			con2.SetSize(cols, rows)
			sessB.Vx.Resize()
			sessB.Vx.Render()
			sessB.DrainEvents()
		}
		val, stack, panicked = harness.Recover(func() {
			win := sessB.Vx.Window()
			win.Clear()
			sessB.Vx.HideCursor()
			m.Draw(win)
			sessB.Vx.Render()
		})
		if panicked {
			w.ViolationStack("panic:"+harness.PanicKey(val, stack), "panic drawing the emulator into a host: "+val, sc, val, "no panic", stack)
			return
		}
		var mm []vxh.Mismatch
		var cursorBad string
		sessB.Con.With(func() {
			mm = vxh.Compare(app.Shadow(), sessB.Term, method, rgb, smulx, 3)
			t := sessB.Term
			if vis && (!t.CursorVisible || t.R != crow || t.C != ccol || t.CursorShape != cshape) {
				cursorBad = fmt.Sprintf("host cursor visible=%v at (%d,%d) shape %d; requested (%d,%d) shape %d", t.CursorVisible, t.R, t.C, t.CursorShape, crow, ccol, cshape)
			}
			if !vis && t.CursorVisible {
				cursorBad = "host cursor visible, requested hidden"
			}
		})
		if len(mm) > 0 {
			key := "host-draw:" + mm[0].Kind
			if mm[0].Kind == "style" {
				key += ":" + strings.SplitN(mm[0].Detail, " ", 2)[0]
			}
			w.Violation(key, fmt.Sprintf("frame %d: what the emulator draws into a host differs from the application's screen: %s", fi, mm[0]), sc, mm[0].String(), "host cells equal the application's shadow")
			return
		}
		if cursorBad != "" {
			w.Violation("host-draw:cursor", fmt.Sprintf("frame %d: %s", fi, cursorBad), sc, cursorBad, "cursor as requested")
			return
		}
	}
	w.Sample(map[string]any{"cols": sc.Cols, "rows": sc.Rows, "frames": len(sc.Frames), "first_frame": sc.Frames[0]})
}

// implemented observes, on a fresh emulator, whether a feature is implemented.
func implemented() map[string]bool {
	res := map[string]bool{}
	probe := func(b string) term.VerifSnap {
		m, err := term.VerifNew(10, 2)
		if err != nil {
			return term.VerifSnap{}
		}
		defer term.VerifFree(m)
		term.VerifFeed(m, []byte(b), nil)
		return term.VerifSnapshot(m, true)
	}
	s := probe("\x1b[38:2:1:2:3mx")
	res["rgb"] = len(s.Cells) > 0 && len(s.Cells[0][0].Style.Foreground.Params()) == 3
	s = probe("\x1b[4:3m\x1b[58:5:9mx")
	res["styled-underline"] = len(s.Cells) > 0 && s.Cells[0][0].Style.UnderlineStyle == vaxis.UnderlineCurly && len(s.Cells[0][0].Style.UnderlineColor.Params()) == 1
	s = probe("\U0001F469\u200d\U0001F680x")
	// unicode-aware width: the ZWJ sequence is one cell, x follows at column 2
	res["unicode-width"] = len(s.Cells) > 0 && s.Cells[0][0].Grapheme == "\U0001F469\u200d\U0001F680" && s.Cells[0][2].Grapheme == "x"
	// sixel: announced by attribute 4 of the emulator's device attributes
	// (it answers no graphics query), implemented by its DCS q decoder
	if m, err := term.VerifNew(10, 2); err == nil {
		term.VerifFeed(m, []byte("\x1b[c"), nil)
		rep := string(term.VerifTakeReplies(m))
		term.VerifFree(m)
		for _, a := range strings.Split(strings.TrimSuffix(strings.TrimPrefix(rep, "\x1b[?"), "c"), ";") {
			if a == "4" {
				res["sixel"] = true
			}
		}
	}
	return res
}

var impl map[string]bool

func capClause(w *harness.W, vx *vaxis.Vaxis, sc sessCase) {
	if impl == nil {
		impl = implemented()
	}
	w.Count("capability_clauses", 1)
	det := map[string]bool{
		"rgb":           vx.CanRGB(),
		"unicode-width": vx.CanUnicodeCore() || vx.CanExplicitWidth(),
		"sixel":         vx.CanSixel(),
	}
	for _, f := range []string{"rgb", "unicode-width", "sixel"} {
		if det[f] != impl[f] {
			w.Violation("capability:"+f, fmt.Sprintf("feature %s: detected by Vaxis=%v, implemented by the emulator=%v", f, det[f], impl[f]), sc, fmt.Sprint(det[f]), fmt.Sprint(impl[f]))
		}
	}
	// styled underlines have no accessor: observe what Vaxis sends
	if impl["styled-underline"] {
		w.Count("styled_underline_implemented", 1)
	}
}

func (c check) Run(w *harness.W, b harness.Batch) {
	var s spec
	json.Unmarshal(b.Spec, &s)
	r := gen.New(b.Seed)
	for i := 0; i < s.N; i++ {
		runSession(w, gen.New(r.Int63()))
	}
}

func (check) Finalize(tier string, m *harness.Merged) string {
	if m.Counts["frames_compared"] == 0 {
		return "no frame compared"
	}
	return ""
}
