// Package c09: key decoding and binding matching are exact and
// protocol-independent (DESIGN.md \u00a73 C09).
package c09

import (
	"encoding/json"
	"fmt"
	"strings"
	"unicode"

	"git.sr.ht/~rockorager/vaxis"

	"verif/internal/evp"
	"verif/internal/gen"
	"verif/internal/harness"
)

type check struct{}

func init() { harness.Register(check{}) }

func (check) ID() string    { return "C09" }
func (check) Level() string { return "exploration" }
func (check) Rule() string {
	return "key reports are generated from an independent spec table (legacy bytes and C0, ESC-prefixed, SS3, CSI letter / CSI ~ with xterm modifier parameter, CSI 27;m;c~, kitty CSI u with every combination of optional fields, functional keys with and without associated text) for all 128 ASCII codes, a sample of other scripts and every named key x modifier masks x event types x text payloads, injected through a fake console and read from Events(); decoded fields are compared with the table, and the relational matching oracles (modifier soundness, lock independence, documented shift forgiveness, self-match, cross-protocol equality on the unambiguous chord set) are evaluated over a binding set. A case is one (encoding) or one (key, binding) evaluation; distinct = hash of the encoding / pair"
}
func (check) Assumptions() []string {
	return []string{
		"functional key numbers transcribed by hand from the kitty keyboard protocol document and xterm ctlseqs",
		"chords legacy cannot express distinctly (Ctrl+digit, Ctrl+Shift+letter, Alt+Ctrl+..., Alt+Shift+letter) are outside the cross-protocol set",
		"for Shift+printable without associated text the library's documented workaround (text = upper-cased key) is accepted as well as empty text",
	}
}

type spec struct {
	Kind string `json:"kind"`
	Part int    `json:"part"`
	Of   int    `json:"of"`
}

func (check) Plan(tier string, seed int64) []harness.Batch {
	var bs []harness.Batch
	parts := 16
	for p := 0; p < parts; p++ {
		s, _ := json.Marshal(spec{Kind: "decode", Part: p, Of: parts})
		bs = append(bs, harness.Batch{Name: fmt.Sprintf("decode-%d", p), Seed: seed + int64(p), Spec: s, TimeoutS: 3000, CaseTimeoutS: 200})
	}
	return bs
}

const (
	mShift = 1 << iota
	mAlt
	mCtrl
	mSuper
	mHyper
	mMeta
	mCaps
	mNum
)

const strong = mCtrl | mAlt | mSuper | mHyper | mMeta

// expected key fields, stated from the encoding
type want struct {
	Keycode, Shifted, Base rune
	Mods                   int
	Event                  int // 0 press 1 repeat 2 release
	Text                   string
	TextAlt                string // acceptable alternative text ("" = none)
	hasAlt                 bool
}

type enc struct {
	Bytes string `json:"bytes"`
	Proto string `json:"proto"` // legacy | kitty
	Form  string `json:"form"`
	W     want   `json:"-"`
	Chord string `json:"chord,omitempty"` // canonical chord id for cross-protocol comparison ("" = not in the unambiguous set)
}

// named functional keys: name, vaxis constant, legacy encodings, kitty number
type fkey struct {
	name   string
	code   rune
	csiNum int  // CSI n ~ number (0 = none)
	csiLet byte // CSI letter form (0 = none)
	ss3    byte // SS3 letter (0 = none)
	kitty  int  // CSI n u number (0 = none)
}

var fkeys = []fkey{
	{"Up", vaxis.KeyUp, 0, 'A', 'A', 0},
	{"Down", vaxis.KeyDown, 0, 'B', 'B', 0},
	{"Right", vaxis.KeyRight, 0, 'C', 'C', 0},
	{"Left", vaxis.KeyLeft, 0, 'D', 'D', 0},
	{"Home", vaxis.KeyHome, 1, 'H', 'H', 0},
	{"End", vaxis.KeyEnd, 4, 'F', 'F', 0},
	{"Insert", vaxis.KeyInsert, 2, 0, 0, 0},
	{"Delete", vaxis.KeyDelete, 3, 0, 0, 0},
	{"Page_Up", vaxis.KeyPgUp, 5, 0, 0, 0},
	{"Page_Down", vaxis.KeyPgDown, 6, 0, 0, 0},
	{"F1", vaxis.KeyF01, 11, 'P', 'P', 0},
	{"F2", vaxis.KeyF02, 12, 'Q', 'Q', 0},
	{"F3", vaxis.KeyF03, 13, 0, 'R', 0},
	{"F4", vaxis.KeyF04, 14, 'S', 'S', 0},
	{"F5", vaxis.KeyF05, 15, 0, 0, 0},
	{"F6", vaxis.KeyF06, 17, 0, 0, 0},
	{"F7", vaxis.KeyF07, 18, 0, 0, 0},
	{"F8", vaxis.KeyF08, 19, 0, 0, 0},
	{"F9", vaxis.KeyF09, 20, 0, 0, 0},
	{"F10", vaxis.KeyF10, 21, 0, 0, 0},
	{"F11", vaxis.KeyF11, 23, 0, 0, 0},
	{"F12", vaxis.KeyF12, 24, 0, 0, 0},
	{"F13", vaxis.KeyF13, 25, 0, 0, 57376},
	{"F14", vaxis.KeyF14, 26, 0, 0, 57377},
	{"F15", vaxis.KeyF15, 28, 0, 0, 57378},
	{"F16", vaxis.KeyF16, 29, 0, 0, 57379},
	{"F17", vaxis.KeyF17, 31, 0, 0, 57380},
	{"F18", vaxis.KeyF18, 32, 0, 0, 57381},
	{"F19", vaxis.KeyF19, 33, 0, 0, 57382},
	{"F20", vaxis.KeyF20, 34, 0, 0, 57383},
	{"F21", vaxis.KeyF21, 0, 0, 0, 57384},
	{"F24", vaxis.KeyF24, 0, 0, 0, 57387},
	{"F35", vaxis.KeyF35, 0, 0, 0, 57398},
	{"Caps_Lock", vaxis.KeyCapsLock, 0, 0, 0, 57358},
	{"Scroll_Lock", vaxis.KeyScrollLock, 0, 0, 0, 57359},
	{"Num_Lock", vaxis.KeyNumlock, 0, 0, 0, 57360},
	{"PrintScreen", vaxis.KeyPrintScreen, 0, 0, 0, 57361},
	{"Pause", vaxis.KeyPause, 0, 0, 0, 57362},
	{"Menu", vaxis.KeyMenu, 0, 0, 0, 57363},
	{"KP_0", vaxis.KeyKeyPad0, 0, 0, 0, 57399},
	{"KP_9", vaxis.KeyKeyPad9, 0, 0, 0, 57408},
	{"KP_Enter", vaxis.KeyKeyPadEnter, 0, 0, 0, 57414},
	{"KP_Begin", vaxis.KeyKeyPadBegin, 57427, 'E', 0, 0},
	{"Media_Play", vaxis.KeyMediaPlay, 0, 0, 0, 57428},
	{"Mute", vaxis.KeyMediaMute, 0, 0, 0, 57440},
	{"Shift_L", vaxis.KeyLeftShift, 0, 0, 0, 57441},
	{"Meta_R", vaxis.KeyRightMeta, 0, 0, 0, 57452},
	{"ISO_Level5_Shift", vaxis.KeyL5Shift, 0, 0, 0, 57454},
	{"Escape", vaxis.KeyEsc, 0, 0, 0, 27},
	{"Enter", vaxis.KeyEnter, 0, 0, 0, 13},
	{"Tab", vaxis.KeyTab, 0, 0, 0, 9},
	{"BackSpace", vaxis.KeyBackspace, 0, 0, 0, 127},
}

func chordID(code rune, mods int) string { return fmt.Sprintf("%d/%d", code, mods) }

// legacyEncodings builds every legacy encoding with its expected decoding.
func legacyEncodings() []enc {
	var out []enc
	// printable ASCII
	for c := rune(0x20); c < 0x7f; c++ {
		w := want{Keycode: c, Text: string(c)}
		chord := chordID(c, 0)
		if unicode.IsUpper(c) {
			w = want{Keycode: unicode.ToLower(c), Shifted: c, Mods: mShift, Text: string(c)}
			chord = chordID(unicode.ToLower(c), mShift)
		}
		out = append(out, enc{Bytes: string(c), Proto: "legacy", Form: "byte", W: w, Chord: chord})
	}
	// other scripts
	for _, c := range []rune{'\u00e9', '\u00df', '\u0444', '\u0424', '\u03bb', '\u03a9', '\u4f60', '\ud55c', '\u00f1', '\u00d1', '\u20ac', '\u00bf'} {
		w := want{Keycode: c, Text: string(c)}
		if unicode.IsUpper(c) {
			w = want{Keycode: unicode.ToLower(c), Shifted: c, Mods: mShift, Text: string(c)}
		}
		out = append(out, enc{Bytes: string(c), Proto: "legacy", Form: "byte-nonascii", W: w})
	}
	// keys whose text is one grapheme cluster of several code points: the
	// key code is the first code point, the text the whole cluster
	for _, g := range []string{"e\u0301", "E\u0301", "\u2764\ufe0f", "\U0001F1FA\U0001F1F8", "\U0001F469\u200d\U0001F680", "\U0001F44D\U0001F3FD", "n\u0303\u0301", "\u0424\u0301"} {
		c := []rune(g)[0]
		w := want{Keycode: c, Text: g}
		if unicode.IsUpper(c) {
			w = want{Keycode: unicode.ToLower(c), Shifted: c, Mods: mShift, Text: g}
		}
		out = append(out, enc{Bytes: g, Proto: "legacy", Form: "cluster", W: w})
	}
	// C0
	for c := rune(0); c < 0x20; c++ {
		var w want
		chord := ""
		switch c {
		case 0x08:
			w = want{Keycode: vaxis.KeyBackspace}
		case 0x09:
			w = want{Keycode: vaxis.KeyTab}
			chord = chordID(vaxis.KeyTab, 0)
		case 0x0d:
			w = want{Keycode: vaxis.KeyEnter}
			chord = chordID(vaxis.KeyEnter, 0)
		case 0x1b:
			continue // lone ESC is timing dependent: C08
		case 0x18, 0x1a:
			// CAN/SUB are delivered as Ctrl+x / Ctrl+z
			w = want{Keycode: c + 0x60, Mods: mCtrl}
			chord = chordID(c+0x60, mCtrl)
		case 0x00:
			w = want{Keycode: '@', Mods: mCtrl}
		default:
			if c <= 0x1a {
				w = want{Keycode: c + 0x60, Mods: mCtrl}
				chord = chordID(c+0x60, mCtrl)
			} else {
				w = want{Keycode: c + 0x40, Mods: mCtrl}
			}
		}
		out = append(out, enc{Bytes: string(c), Proto: "legacy", Form: "c0", W: w, Chord: chord})
	}
	out = append(out, enc{Bytes: "\x7f", Proto: "legacy", Form: "del", W: want{Keycode: vaxis.KeyBackspace}, Chord: chordID(vaxis.KeyBackspace, 0)})
	// ESC prefixed
	for c := rune(0x30); c <= 0x7f; c++ {
		// 0x20-0x2F after ESC are intermediates of an escape sequence that
		// is still incomplete: Alt+punctuation is not expressible in legacy
		switch c {
		case 'O', 'P', 'X', '[', ']', '^', '_':
			continue // introducers
		}
		code := c
		chord := ""
		if c == 0x7f {
			chord = chordID(vaxis.KeyBackspace, mAlt)
		} else if !unicode.IsUpper(c) {
			chord = chordID(c, mAlt)
		}
		out = append(out, enc{Bytes: "\x1b" + string(c), Proto: "legacy", Form: "esc-prefix", W: want{Keycode: code, Mods: mAlt}, Chord: chord})
	}
	// SS3
	for _, f := range fkeys {
		if f.ss3 != 0 {
			out = append(out, enc{Bytes: "\x1bO" + string(rune(f.ss3)), Proto: "legacy", Form: "ss3", W: want{Keycode: f.code}, Chord: chordID(f.code, 0)})
		}
	}
	// CSI letter and CSI ~ with the xterm modifier parameter
	for _, f := range fkeys {
		for xm := 1; xm <= 16; xm++ {
			mods := xm - 1 // xterm: 1 + (shift 1 | alt 2 | ctrl 4 | meta 8)
			chord := ""
			if mods < 8 {
				chord = chordID(f.code, mods)
			}
			if f.csiLet != 0 {
				if xm == 1 {
					out = append(out, enc{Bytes: "\x1b[" + string(rune(f.csiLet)), Proto: "legacy", Form: "csi-letter", W: want{Keycode: f.code}, Chord: chord})
				}
				out = append(out, enc{Bytes: fmt.Sprintf("\x1b[1;%d%c", xm, f.csiLet), Proto: "legacy", Form: "csi-letter-mod", W: want{Keycode: f.code, Mods: mods}, Chord: chord})
			}
			if f.csiNum != 0 {
				if xm == 1 {
					out = append(out, enc{Bytes: fmt.Sprintf("\x1b[%d~", f.csiNum), Proto: "legacy", Form: "csi-tilde", W: want{Keycode: f.code}, Chord: chord})
				}
				out = append(out, enc{Bytes: fmt.Sprintf("\x1b[%d;%d~", f.csiNum, xm), Proto: "legacy", Form: "csi-tilde-mod", W: want{Keycode: f.code, Mods: mods}, Chord: chord})
			}
		}
	}
	// Shift+Tab
	out = append(out, enc{Bytes: "\x1b[Z", Proto: "legacy", Form: "csi-Z", W: want{Keycode: vaxis.KeyTab, Mods: mShift}, Chord: chordID(vaxis.KeyTab, mShift)})
	// modifyOtherKeys: CSI 27 ; mod ; code ~
	for _, code := range []rune{13, 9, 'a', '1', ' '} {
		for _, xm := range []int{2, 3, 5, 6, 7, 8} {
			out = append(out, enc{Bytes: fmt.Sprintf("\x1b[27;%d;%d~", xm, code), Proto: "legacy", Form: "csi-27", W: want{Keycode: code, Mods: xm - 1}})
		}
	}
	return out
}

func kittyEncodings(r gen.R, thin int) []enc {
	var out []enc
	add := func(code int, shifted, base rune, mods, event int, text string, keycode rune, form string, chord string) {
		var sb strings.Builder
		fmt.Fprintf(&sb, "\x1b[%d", code)
		if shifted != 0 || base != 0 {
			sb.WriteString(":")
			if shifted != 0 {
				fmt.Fprintf(&sb, "%d", shifted)
			}
			if base != 0 {
				fmt.Fprintf(&sb, ":%d", base)
			}
		}
		needMods := mods != 0 || event != 0 || text != ""
		if needMods {
			fmt.Fprintf(&sb, ";%d", mods+1)
			if event != 0 {
				fmt.Fprintf(&sb, ":%d", event+1)
			}
		}
		if text != "" {
			var cps []string
			for _, c := range text {
				cps = append(cps, fmt.Sprint(int(c)))
			}
			sb.WriteString(";" + strings.Join(cps, ":"))
		}
		sb.WriteString("u")
		w := want{Keycode: keycode, Shifted: shifted, Base: base, Mods: mods, Event: event, Text: text}
		if text == "" && mods&^(mCaps|mNum) == mShift && keycode <= unicode.MaxRune && unicode.IsPrint(keycode) {
			w.hasAlt, w.TextAlt = true, string(unicode.ToUpper(keycode))
		}
		out = append(out, enc{Bytes: sb.String(), Proto: "kitty", Form: form, W: w, Chord: chord})
	}
	k := 0
	// ASCII x 256 masks x event types
	for c := 1; c < 128; c++ {
		if c == 27 || c == 13 || c == 9 || c == 127 {
			continue // functional in kitty: below
		}
		for mods := 0; mods < 256; mods++ {
			k++
			if thin > 1 && k%thin != 0 && mods&^(mShift|mAlt|mCtrl) != 0 {
				continue
			}
			code := rune(c)
			chord := ""
			strongMods := mods & strong
			switch {
			case mods == 0 && c >= 0x20:
				chord = chordID(code, 0)
			case mods == mShift && unicode.IsLower(code):
				chord = chordID(code, mShift)
			case mods == mCtrl && unicode.IsLower(code) && code != 'i' && code != 'm' && code != 'h' && code != '[':
				chord = chordID(code, mCtrl)
			case mods == mAlt && c >= 0x20 && !unicode.IsUpper(code):
				chord = chordID(code, mAlt)
			}
			_ = strongMods
			shifted := rune(0)
			text := ""
			if mods&mShift != 0 && unicode.IsLower(code) {
				shifted = unicode.ToUpper(code)
			}
			if mods&^(mShift|mCaps|mNum) == 0 && c >= 0x20 {
				text = string(code)
				// the text a keyboard produces: Shift or Caps Lock (not
				// both) upper-cases a letter
				if (mods&mShift != 0) != (mods&mCaps != 0 && unicode.IsLetter(code)) {
					text = string(unicode.ToUpper(code))
				}
			}
			ev := 0
			if mods%7 == 3 {
				ev = r.Intn(3)
			}
			if ev == 2 {
				chord = ""
			}
			add(c, shifted, 0, mods, ev, text, code, "u", chord)
		}
	}
	// optional fields combinations on a few keys
	for _, c := range []rune{'a', ';', '\u0444', '1'} {
		for _, sh := range []rune{0, 'A'} {
			for _, base := range []rune{0, 'q'} {
				for _, mods := range []int{0, mShift, mCtrl | mShift, mCaps, mAlt | mNum} {
					for ev := 0; ev < 3; ev++ {
						for _, text := range []string{"", string(c), "Z", "\U0001F469\u200d\U0001F680"} {
							add(int(c), sh, base, mods, ev, text, c, "u-optional-fields", "")
						}
					}
				}
			}
		}
	}
	// functional keys
	for _, f := range fkeys {
		if f.kitty == 0 {
			continue
		}
		for _, mods := range []int{0, mShift, mAlt, mCtrl, mShift | mAlt, mShift | mCtrl, mAlt | mCtrl, mShift | mAlt | mCtrl, mSuper, mHyper, mMeta, mCaps, mNum, mCtrl | mCaps | mNum, 255} {
			chord := ""
			if mods < 8 {
				chord = chordID(f.code, mods)
			}
			if f.code == vaxis.KeyBackspace && mods&^mAlt != 0 {
				chord = ""
			}
			if (f.code == vaxis.KeyTab || f.code == vaxis.KeyEnter || f.code == vaxis.KeyEsc) && mods&^mShift != 0 {
				chord = ""
			}
			for ev := 0; ev < 3; ev++ {
				ch := chord
				if ev != 0 {
					ch = ""
				}
				add(f.kitty, 0, 0, mods, ev, "", f.code, "u-functional", ch)
				// the optional third field (associated text) on a functional
				// key: text is text, whatever the key number (C09-q: the
				// CSI 27;m;c~ special case must not swallow CSI 27;m;text u)
				if mods < 8 {
					add(f.kitty, 0, 0, mods, ev, "a", f.code, "u-functional-text", "")
					add(f.kitty, 0, 0, mods, ev, "\u4e16b", f.code, "u-functional-text", "")
				}
			}
		}
	}
	// legacy-shaped functional forms kept by the protocol: CSI 1 ; mods : event A
	for _, f := range fkeys {
		if f.csiLet == 0 {
			continue
		}
		for _, mods := range []int{0, mShift, mCtrl, mAlt | mShift, 255} {
			for ev := 0; ev < 3; ev++ {
				out = append(out, enc{Bytes: fmt.Sprintf("\x1b[1;%d:%d%c", mods+1, ev+1, f.csiLet), Proto: "kitty", Form: "legacy-shaped", W: want{Keycode: f.code, Mods: mods, Event: ev}})
			}
		}
	}
	return out
}

var nRandomBindings = 200

type binding struct {
	key  rune
	mods int
}

func bindings(r gen.R) []binding {
	var bs []binding
	keys := []rune{'a', 'A', 'j', 'z', ';', ':', '1', '!', ' ', '@', '[', '\u0444', '\u0424', '\u00e9', vaxis.KeyTab, vaxis.KeyEnter, vaxis.KeyEsc, vaxis.KeyBackspace, vaxis.KeyUp, vaxis.KeyF01, vaxis.KeyF13, vaxis.KeyHome, vaxis.KeyKeyPad0}
	for _, k := range keys {
		for _, m := range []int{0, mShift, mAlt, mCtrl, mSuper, mHyper, mMeta, mCaps, mNum, mShift | mCtrl, mShift | mAlt, mAlt | mCtrl, mCtrl | mCaps, mShift | mNum, 255} {
			bs = append(bs, binding{k, m})
		}
	}
	for i := 0; i < nRandomBindings; i++ {
		bs = append(bs, binding{rune(r.Range(0x20, 0x7e)), r.Intn(256)})
	}
	return bs
}

func modsOf(k vaxis.Key) int { return int(k.Modifiers) }

func matchSig(k vaxis.Key, bs []binding) string {
	var sb strings.Builder
	for _, b := range bs {
		if k.Matches(b.key, vaxis.ModifierMask(b.mods)) {
			sb.WriteByte('1')
		} else {
			sb.WriteByte('0')
		}
	}
	return sb.String()
}

type keyCase struct {
	Enc     enc    `json:"encoding"`
	Decoded string `json:"decoded"`
}

func (c check) Run(w *harness.W, b harness.Batch) {
	var s spec
	json.Unmarshal(b.Spec, &s)
	r := gen.New(b.Seed)
	thin := 1
	all := append(legacyEncodings(), kittyEncodings(gen.New(7), thin)...)
	if w.Tier == "thorough" {
		nRandomBindings = 6000
	}
	bs := bindings(gen.New(11))
	caps := uint32(0)
	if s.Part%2 == 1 {
		caps = 1 << 4 // kitty keyboard advertised
	}
	p, err := evp.New(caps, vaxis.Options{})
	if err != nil {
		w.Inconclusive("pipe-start-failed")
		return
	}
	defer p.Close()
	type chordObs struct {
		str, sig, bytes, proto string
	}
	chords := map[string][]chordObs{}
	var mine []enc
	for i, e := range all {
		// cross-protocol comparison needs both protocols in the same worker:
		// chord-carrying encodings go to every part's share by chord hash
		if e.Chord != "" {
			h := 0
			for _, ch := range e.Chord {
				h = h*31 + int(ch)
			}
			if h%s.Of == s.Part {
				mine = append(mine, e)
			}
			continue
		}
		if i%s.Of == s.Part {
			mine = append(mine, e)
		}
	}
	_ = r
	// history independence: control strings cut short by a key report (a
	// reply interrupted by typing) are interleaved; their own events are not
	// judged, every key after them must decode as it does in isolation
	contexts := []string{"\x1b]11;rgb:10\x1b[A", "\x1bP1$r0\x1bx", "\x1b_Gi=1\x1bOA", "\x1bXso\x1b[1;5B", "\x1b^pm\x1b[97u"}
	var withCtx []enc
	for i, e := range mine {
		if i%7 == 3 {
			withCtx = append(withCtx, enc{Bytes: contexts[(i/7)%len(contexts)], Proto: "legacy", Form: "context"})
		}
		withCtx = append(withCtx, e)
	}
	mine = withCtx
	const group = 60
	for off := 0; off < len(mine); off += group {
		end := off + group
		if end > len(mine) {
			end = len(mine)
		}
		var raw [][]byte
		for _, e := range mine[off:end] {
			raw = append(raw, []byte(e.Bytes))
		}
		w.Begin(fmt.Sprintf("group of %d encodings starting with %q", end-off, mine[off].Bytes))
		evs, ok := p.Decode(raw)
		w.End()
		if !ok {
			w.Violation("liveness:sentinel-not-delivered", "the input loop stopped consuming while decoding keys", mine[off:end], "sentinel missing", "sentinel delivered")
			return
		}
		for i, e := range mine[off:end] {
			if e.Form == "context" {
				w.Count("interrupted_control_strings_interleaved", 1)
				continue
			}
			w.Case("enc|" + e.Bytes)
			w.Count("encodings_"+e.Proto, 1)
			w.Distinct("forms", e.Form)
			var keys []vaxis.Key
			for _, ev := range evs[i] {
				if k, ok := ev.(vaxis.Key); ok {
					keys = append(keys, k)
				}
			}
			if len(keys) != 1 || len(evs[i]) != 1 {
				w.Violation("decode:count:"+e.Form, fmt.Sprintf("encoding %q produced %d events (%d keys), expected exactly one key", e.Bytes, len(evs[i]), len(keys)), e, fmt.Sprintf("%#v", evs[i]), "one Key")
				continue
			}
			k := keys[0]
			if d := diffKey(k, e.W); d != "" {
				w.Violation("decode:"+e.Form+":"+strings.SplitN(d, " ", 2)[0], fmt.Sprintf("encoding %q (%s) decoded wrongly: %s", e.Bytes, e.Form, d), keyCase{e, fmt.Sprintf("%#v", k)}, fmt.Sprintf("%#v", k), fmt.Sprintf("%+v", e.W))
				continue
			}
			c.relational(w, k, e, bs)
			if e.Chord != "" {
				chords[e.Chord] = append(chords[e.Chord], chordObs{k.String(), matchSig(k, bs), e.Bytes, e.Proto})
			}
			if i == 0 && off%600 == 0 {
				w.Sample(keyCase{e, fmt.Sprintf("%#v", k)})
			}
		}
	}
	// (5) cross-protocol equality
	for ch, obs := range chords {
		protos := map[string]bool{}
		for _, o := range obs {
			protos[o.proto] = true
		}
		if len(protos) < 2 {
			continue
		}
		w.Count("cross_protocol_chords", 1)
		for _, o := range obs[1:] {
			if o.str != obs[0].str {
				w.Violation("cross-protocol:string", fmt.Sprintf("chord %s: %q gives %q but %q gives %q", ch, obs[0].bytes, obs[0].str, o.bytes, o.str), []string{obs[0].bytes, o.bytes}, o.str, obs[0].str)
				break
			}
			if o.sig != obs[0].sig {
				diffAt := -1
				for i := range o.sig {
					if o.sig[i] != obs[0].sig[i] {
						diffAt = i
						break
					}
				}
				w.Violation("cross-protocol:bindings", fmt.Sprintf("chord %s: %q and %q match different bindings, e.g. key %q mods %d", ch, obs[0].bytes, o.bytes, bs[diffAt].key, bs[diffAt].mods), []string{obs[0].bytes, o.bytes}, o.sig, obs[0].sig)
				break
			}
		}
	}
}

func diffKey(k vaxis.Key, w want) string {
	switch {
	case k.Keycode != w.Keycode:
		return fmt.Sprintf("keycode got %d want %d", k.Keycode, w.Keycode)
	case k.ShiftedCode != w.Shifted:
		return fmt.Sprintf("shifted got %d want %d", k.ShiftedCode, w.Shifted)
	case k.BaseLayoutCode != w.Base:
		return fmt.Sprintf("base got %d want %d", k.BaseLayoutCode, w.Base)
	case modsOf(k) != w.Mods:
		return fmt.Sprintf("modifiers got %d want %d", modsOf(k), w.Mods)
	case int(k.EventType) != w.Event:
		return fmt.Sprintf("eventtype got %d want %d", k.EventType, w.Event)
	case k.Text != w.Text && !(w.hasAlt && k.Text == w.TextAlt) && !(w.Text == "" && w.Mods&^(mCaps|mNum) == mShift && w.Keycode <= unicode.MaxRune && unicode.IsPrint(w.Keycode) && k.Text == string(unicode.ToUpper(w.Keycode))):
		return fmt.Sprintf("text got %q want %q", k.Text, w.Text)
	}
	return ""
}

var nameable = map[rune]bool{}

func init() {
	for _, f := range fkeys {
		switch f.name {
		case "KP_0", "KP_9", "KP_Enter", "KP_Begin", "PrintScreen":
			continue // no unique name in the library's key name table
		}
		nameable[f.code] = true
	}
}

// relational oracles (1)-(4)
func (c check) relational(w *harness.W, k vaxis.Key, e enc, bs []binding) {
	kStrong := modsOf(k) & strong
	for _, b := range bs {
		w.Count("matches_evaluated", 1)
		res := k.Matches(b.key, vaxis.ModifierMask(b.mods))
		// the binding's modifiers may be given as one mask or as a list
		var list []vaxis.ModifierMask
		for bit := 1; bit <= b.mods; bit <<= 1 {
			if b.mods&bit != 0 {
				list = append(list, vaxis.ModifierMask(bit))
			}
		}
		if len(list) > 1 && k.Matches(b.key, list...) != res {
			w.Violation("match:modifier-list-differs-from-mask", fmt.Sprintf("key %q against binding (%q,%d): Matches with the modifiers as separate arguments disagrees with Matches with one combined mask", e.Bytes, b.key, b.mods), keyCase{e, fmt.Sprintf("%#v", k)}, fmt.Sprint(!res), fmt.Sprint(res))
			return
		}
		// (2) lock independence
		for _, tog := range []int{mCaps, mNum} {
			k2 := k
			k2.Modifiers ^= vaxis.ModifierMask(tog)
			if k2.Matches(b.key, vaxis.ModifierMask(b.mods)) != res || k.Matches(b.key, vaxis.ModifierMask(b.mods^tog)) != res {
				w.Violation("match:lock-dependence", fmt.Sprintf("toggling a lock modifier changes whether key %q matches binding (%q,%d)", e.Bytes, b.key, b.mods), keyCase{e, fmt.Sprintf("%#v", k)}, "result changed", "lock keys never affect matching")
				return
			}
		}
		if !res {
			continue
		}
		// (1) soundness
		if b.mods&strong != kStrong {
			w.Violation("match:strong-modifiers-differ", fmt.Sprintf("key %q (mods %d) matches binding (%q, mods %d) although Ctrl/Alt/Super/Hyper/Meta differ", e.Bytes, modsOf(k), b.key, b.mods), keyCase{e, fmt.Sprintf("%#v", k)}, "match", "no match")
			return
		}
		// (3) shift forgiveness only in the documented situations
		if (b.mods^modsOf(k))&mShift != 0 {
			ok := false
			if b.mods&mShift == 0 && k.ShiftedCode == b.key && b.key != 0 {
				ok = true // shifted symbol bound directly
			}
			if !unicode.IsLetter(b.key) && unicode.IsGraphic(b.key) && (k.Keycode == b.key || k.ShiftedCode == b.key) {
				ok = true
			}
			if b.mods&mShift != 0 && unicode.IsLower(b.key) && k.Text == string(unicode.ToUpper(b.key)) {
				ok = true
			}
			if !ok {
				w.Violation("match:shift-forgiven-undocumented", fmt.Sprintf("key %q (mods %d) matches binding (%q, mods %d) with different Shift outside the documented rules", e.Bytes, modsOf(k), b.key, b.mods), keyCase{e, fmt.Sprintf("%#v", k)}, "match", "no match")
				return
			}
		}
	}
	// (4) self match
	if !k.Matches(k.Keycode, k.Modifiers) {
		w.Violation("match:self", fmt.Sprintf("key %q does not match its own keycode and modifiers", e.Bytes), keyCase{e, fmt.Sprintf("%#v", k)}, "no match", "match")
		return
	}
	if e.W.Event != 2 && e.Form != "u-optional-fields" && (k.Keycode < 0x7f && k.Keycode >= 0x20 || nameable[k.Keycode]) {
		s := k.String()
		if !k.MatchString(s) {
			m := modsOf(k) & strong
			which := "other"
			if modsOf(k)&mCaps != 0 {
				which = "capslock"
				if k.Text == "" {
					which = "capslock-without-text"
				}
			} else if m&mHyper != 0 {
				which = "hyper"
			} else if k.Keycode == '+' {
				which = "plus-key"
			}
			w.Violation("match:self-string:"+which, fmt.Sprintf("key %q has String() %q but MatchString of it is false", e.Bytes, s), keyCase{e, fmt.Sprintf("%#v", k)}, "false", "true")
		}
	}
}

func (check) Finalize(tier string, m *harness.Merged) string {
	if m.Counts["encodings_legacy"] == 0 || m.Counts["encodings_kitty"] == 0 || m.Counts["cross_protocol_chords"] == 0 || m.Counts["matches_evaluated"] == 0 {
		return "a sub-oracle observed nothing"
	}
	return ""
}
