// Package c04: terminal state is restored on every exit path
// (DESIGN.md §3 C04).
package c04

import (
	"encoding/json"
	"errors"
	"fmt"
	"os"
	"sort"
	"strings"
	"sync/atomic"
	"syscall"
	"time"

	"git.sr.ht/~rockorager/vaxis"
	"git.sr.ht/~rockorager/vaxis/verifhook"

	"verif/internal/gen"
	"verif/internal/harness"
	"verif/internal/memcon"
	"verif/internal/refterm"
	"verif/internal/vxh"
)

type check struct{}

func init() { harness.Register(check{}) }

func (check) ID() string    { return "C04" }
func (check) Level() string { return "fault_enumeration" }
func (check) Rule() string {
	return "fault enumeration: capability subsets over the flags that change what start-up/shutdown emit (exhaustive 2^9 in quick together with sampled options; in thorough 6 scripts per subset plus 2560 random masks over all 17 flags) x options (DisableMouse, DisableKittyKeyboard, CSIuBitMask, ReportKeyboardEvents) x session scripts (frames with cursor shown in some style, pointer-shape and app-id changes, 0-3 Suspend/Resume cycles) x shutdown point (every step boundary) and trigger: Close, double Close, Close from another goroutine, a termination signal (SIGTERM/SIGINT delivered to the process) also during an input burst and with a slow application, and a panic injected into the input goroutine through a tag-guarded hook at a position of an input burst (the process dies by design: the parent judges the terminal state recorded in the journal). Application-closed sessions with Options.EventQueueSize 1 and in-band resize advertised (quick 48, thorough 640): capability events meet a full queue during start-up. The reference terminal's full mode table before New must equal the table after shutdown. A case is (caps, options, script, shutdown point, trigger); distinct = hash of it"
}
func (check) Assumptions() []string {
	return []string{
		"prior DEC modes are the terminal's defaults (Vaxis cannot read them); prior cursor style is non-default only when DECRQSS is advertised, prior app id only when OSC 176 is; prior kitty flag stack is non-empty",
		"a shutdown that never returns is reported only with goroutine-dump evidence (caller parked in WaitClose and parser parked in emit)",
		"real-PTY SetRaw/Reset and a killed child process are not covered (in-memory console; signals are delivered to the worker process itself)",
	}
}

type spec struct {
	Kind string          `json:"kind"`
	Part int             `json:"part"`
	Of   int             `json:"of"`
	Case json.RawMessage `json:"case,omitempty"`
}

var flagBits = []int{0, 1, 2, 3, 4, 6, 8, 13, 16} // sync unicode colorscheme inband kittykb sixel explicitwidth decrqss osc176

type caseT struct {
	Caps    uint32   `json:"caps_mask"`
	NoMouse bool     `json:"disable_mouse,omitempty"`
	NoKitty bool     `json:"disable_kitty,omitempty"`
	CSIu    int      `json:"csiu_mask,omitempty"`
	Report  bool     `json:"report_events,omitempty"`
	Script  []string `json:"script"`  // frame | suspend-resume | pointer | appid
	StopAt  int      `json:"stop_at"` // shutdown after this many steps
	Trigger string   `json:"trigger"` // close | double-close | close-other-goroutine | sigterm | sigint | sigterm-burst | sigterm-slow-app | panic
	PanicAt int      `json:"panic_at,omitempty"`
	QueueSz int      `json:"queue_size,omitempty"`
}

func (check) Plan(tier string, seed int64) []harness.Batch {
	var bs []harness.Batch
	for p := 0; p < 16; p++ {
		s, _ := json.Marshal(spec{Kind: "inprocess", Part: p, Of: 16})
		bs = append(bs, harness.Batch{Name: fmt.Sprintf("inprocess-%d", p), Seed: seed*211 + int64(p), Spec: s, TimeoutS: 3000, CaseTimeoutS: 120})
	}
	// panic trigger: the process under test dies by design, one case per worker
	r := gen.New(seed * 223)
	np := 32
	if tier == "thorough" {
		np = 600
	}
	for i := 0; i < np; i++ {
		c := genCase(r, uint32(r.Intn(1<<len(flagBits))))
		c.Trigger = "panic"
		c.QueueSz = 0
		c.PanicAt = r.Intn(6)
		cj, _ := json.Marshal(c)
		s, _ := json.Marshal(spec{Kind: "panic", Case: cj})
		bs = append(bs, harness.Batch{Name: fmt.Sprintf("panic-%d", i), Seed: seed, Spec: s, TimeoutS: 120, CaseTimeoutS: 60})
	}
	return bs
}

// smallQueue: sessions with Options.EventQueueSize 1 that are closed by the
// application. The replies to the first start-up queries pile up behind the
// one-slot queue while New still writes the later ones, so every capability
// event meets a full queue; what was switched on blindly (in-band resize) or
// on the strength of a reply must still be switched off again (C04-q). Own
// PRNG, so that the cases above stay what they were.
func smallQueue(w *harness.W, seed int64, n int) {
	r := gen.New(seed*229 + 17)
	for i := 0; i < n; i++ {
		c := genCase(r, uint32(r.Intn(1<<len(flagBits)))|1<<3|uint32(i%2)) // in-band resize, every other time behind the synchronized-output report
		c.Trigger = []string{"close", "double-close", "close-other-goroutine", "close-while-suspended"}[i%4]
		c.QueueSz = 1
		w.Count("cases_event_queue_of_one", 1)
		runCase(w, c)
	}
}

func maskFromSubset(sub uint32) uint32 {
	var m uint32
	for i, f := range flagBits {
		if sub&(1<<uint(i)) != 0 {
			m |= 1 << uint(f)
		}
	}
	return m
}

func genCase(r gen.R, sub uint32) caseT {
	c := caseT{Caps: maskFromSubset(sub)}
	c.NoMouse = r.Intn(4) == 0
	c.NoKitty = r.Intn(4) == 0
	if r.Intn(3) == 0 {
		c.CSIu = []int{1, 3, 8, 31}[r.Intn(4)]
	}
	c.Report = r.Intn(5) == 0
	n := r.Intn(6)
	for i := 0; i < n; i++ {
		c.Script = append(c.Script, []string{"frame", "frame", "suspend-resume", "pointer", "appid"}[r.Intn(5)])
	}
	c.StopAt = r.Intn(n + 1)
	c.Trigger = []string{"close", "close", "double-close", "close-other-goroutine", "sigterm", "sigint", "sigterm-burst", "sigterm-slow-app", "close-while-suspended"}[r.Intn(9)]
	if c.Trigger == "sigterm-slow-app" {
		c.QueueSz = []int{1, 2, 4}[r.Intn(3)]
	}
	return c
}

type journalT struct {
	Case  caseT             `json:"case"`
	Prior map[string]string `json:"prior"`
	Last  map[string]string `json:"last"`
	Phase string            `json:"phase"`
}

func diffTables(prior, last map[string]string) []string {
	var d []string
	keys := map[string]bool{}
	for k := range prior {
		keys[k] = true
	}
	for k := range last {
		keys[k] = true
	}
	for k := range keys {
		if prior[k] != last[k] {
			d = append(d, fmt.Sprintf("%s: before=%q after=%q", k, prior[k], last[k]))
		}
	}
	sort.Strings(d)
	return d
}

const panicMarker = "verif-injected-panic"

func runCase(w *harness.W, c caseT) {
	cj, _ := json.Marshal(c)
	w.Begin(string(cj))
	defer w.End()
	caps := refterm.CapsFromMask(c.Caps)
	r := gen.New(int64(c.Caps)*7 + int64(len(c.Script)))
	var prior map[string]string
	var term *refterm.Terminal
	journal := journalT{Case: c}
	writeJournal := func(phase string) {
		journal.Phase = phase
		journal.Last = term.ModeTable()
		jb, _ := json.Marshal(journal)
		w.Begin(string(jb))
	}
	opts := vaxis.Options{DisableMouse: c.NoMouse, DisableKittyKeyboard: c.NoKitty, CSIuBitMask: vaxis.CSIuBitMask(c.CSIu), ReportKeyboardEvents: c.Report, EventQueueSize: c.QueueSz}
	t := refterm.New(30, 6, caps)
	term = t
	con := memcon.New(t)
	// prior state, non-trivial where the protocol lets Vaxis restore it
	if caps.DECRQSS {
		t.UserCursorShape = 1 + r.Intn(6)
		t.CursorShape = t.UserCursorShape
	}
	if caps.OSC176 {
		t.AppID = fmt.Sprintf("prior-app-%d", r.Intn(100))
	}
	if caps.KittyKB {
		t.KittyStack = []int{0}
		t.KittyFlags = 1 + r.Intn(3)
	}
	t.R, t.C = r.Intn(6), r.Intn(30)
	prior = t.ModeTable()
	journal.Prior = prior
	if c.Trigger == "panic" {
		con.OnWrite = func(p []byte) { writeJournal("running") }
	}
	opts.WithConsole = con
	opts.NoSignals = false
	vx, err := vaxis.New(opts)
	if err != nil {
		w.Violation("new-failed", err.Error(), c, err.Error(), "nil")
		return
	}
	sess := &vxh.Session{Term: t, Con: con, Vx: vx}
	if c.Trigger != "sigterm-slow-app" {
		if _, ok := sess.Sync(); !ok {
			w.Inconclusive("startup-sync-timeout")
			return
		}
	}
	w.Case(string(cj))
	w.Count("cases_"+c.Trigger, 1)
	w.Distinct("caps_masks", fmt.Sprint(c.Caps))
	// after New the modes established are the reference for Resume
	var afterNew map[string]string
	con.With(func() { afterNew = t.ModeTable() })

	step := func(s string) {
		switch s {
		case "frame":
			vx.Window().SetCell(r.Intn(30), r.Intn(6), vaxis.Cell{Character: vaxis.Character{Grapheme: "x", Width: 1}, Style: vaxis.Style{Foreground: vaxis.IndexColor(3), Attribute: vaxis.AttrBold, Hyperlink: "https://example.org"}})
			if r.Intn(2) == 0 {
				vx.ShowCursor(r.Intn(30), r.Intn(6), vaxis.CursorStyle(r.Intn(7)))
			} else {
				vx.HideCursor()
			}
			vx.Render()
		case "suspend-resume":
			// an application that suspends itself is running its event
			// loop: what is queued is read first (Suspend with a full queue
			// is the open finding about shutdown and the event queue, judged
			// at the trigger, not here)
			for quiet := 0; quiet < 3; {
				select {
				case <-vx.Events():
					quiet = 0
				case <-time.After(5 * time.Millisecond):
					quiet++
				}
			}
			vx.Suspend()
			var mid map[string]string
			con.With(func() { mid = t.ModeTable() })
			if d := diffTables(prior, mid); len(d) > 0 {
				w.Violation("suspend-not-restored:"+strings.SplitN(d[0], ":", 2)[0], "after Suspend the terminal is not back at its prior state: "+strings.Join(d, "; "), c, strings.Join(d, "; "), "prior state")
			}
			vx.Resume()
			if c.Trigger != "sigterm-slow-app" {
				sess.Sync()
			}
			var res map[string]string
			con.With(func() { res = t.ModeTable() })
			// Resume re-establishes exactly the modes start-up established
			// (cursor shape/visibility belong to frames, not to start-up)
			for _, k := range []string{"cursor-shape", "cursor-visible", "pointer-shape", "app-id"} {
				res[k] = afterNew[k]
			}
			if d := diffTables(afterNew, res); len(d) > 0 {
				w.Violation("resume-differs-from-startup:"+strings.SplitN(d[0], ":", 2)[0], "the modes after Resume differ from the modes after New: "+strings.Join(d, "; "), c, strings.Join(d, "; "), "same modes as after New")
			}
		case "pointer":
			vx.SetMouseShape([]vaxis.MouseShape{vaxis.MouseShapeClickable, vaxis.MouseShapeBusy, vaxis.MouseShapeDefault}[r.Intn(3)])
			vx.Render()
		case "appid":
			if vx.CanSetAppID() {
				vx.SetAppID("my-app")
			}
		}
	}
	for i := 0; i < c.StopAt && i < len(c.Script); i++ {
		step(c.Script[i])
	}
	// shutdown
	var timeout <-chan time.Time
	closedOK := false
	done := make(chan struct{})
	finish := func(f func()) {
		go func() {
			defer func() {
				if rec := recover(); rec != nil {
					w.Violation("panic-in-close:"+harness.PanicKey(fmt.Sprint(rec), harness.AllStacks()), fmt.Sprintf("shutdown panicked: %v", rec), c, fmt.Sprint(rec), "no panic")
				}
				close(done)
			}()
			f()
		}()
	}
	burst := func(n int) {
		var b []byte
		for i := 0; i < n; i++ {
			b = append(b, "k\x1b[A\x1b[<0;5;5M"...)
		}
		con.Inject(b)
	}
	drain := true
	switch c.Trigger {
	case "close":
		finish(func() { vx.Close() })
	case "double-close":
		finish(func() {
			vx.Close()
			var mid map[string]string
			con.With(func() { mid = t.ModeTable() })
			vx.Close()
			var after map[string]string
			con.With(func() { after = t.ModeTable() })
			if d := diffTables(mid, after); len(d) > 0 {
				w.Violation("second-close-changed-terminal", "a second Close changed the terminal: "+strings.Join(d, "; "), c, strings.Join(d, "; "), "harmless")
			}
		})
	case "close-while-suspended":
		finish(func() {
			vx.Suspend()
			var mid map[string]string
			con.With(func() { mid = t.ModeTable() })
			if d := diffTables(prior, mid); len(d) > 0 {
				w.Violation("not-restored:suspend:"+strings.SplitN(d[0], ":", 2)[0], "after Suspend the terminal differs from its prior state: "+strings.Join(d, "; "), c, strings.Join(d, "; "), "prior state")
			}
			vx.Close()
		})
	case "close-other-goroutine":
		finish(func() {
			ch := make(chan struct{})
			go func() { vx.Close(); close(ch) }()
			<-ch
		})
	case "sigterm", "sigint", "sigterm-burst", "sigterm-slow-app":
		sig := syscall.SIGTERM
		if c.Trigger == "sigint" {
			sig = syscall.SIGINT
		}
		if c.Trigger == "sigterm-burst" {
			burst(40)
		}
		if c.Trigger == "sigterm-slow-app" {
			// the application does not read events: queue fills up, the
			// input goroutine is parked posting
			drain = false
			burst(40)
			time.Sleep(20 * time.Millisecond)
		}
		finish(func() {
			// if nothing handles the signal the worker dies here: the driver
			// then judges this journal entry
			writeJournal("signal-sent:" + c.Trigger)
			syscall.Kill(os.Getpid(), sig)
			// the library closes itself from its input goroutine: wait for
			// the console to be closed
			deadline := time.Now().Add(5 * time.Second)
			for time.Now().Before(deadline) {
				closed := false
				con.With(func() { closed = con.CloseCalls > 0 })
				if closed {
					return
				}
				time.Sleep(2 * time.Millisecond)
			}
		})
	case "panic":
		n := 0
		var fired int32
		verifhook.Arm("vaxis.handleSequence", func() {
			n++
			if n == c.PanicAt+1 {
				atomic.StoreInt32(&fired, 1)
				if c.PanicAt%2 == 1 {
					// a panic value that is an error (as runtime errors are)
					panic(errors.New(panicMarker))
				}
				panic(panicMarker)
			}
		})
		writeJournal("panic-armed")
		burst(3)
		// the input goroutine recovers, closes Vaxis and panics again: this
		// process dies; the parent judges journal.Last
		for end := time.After(10 * time.Second); ; {
			select {
			case <-vx.Events():
				continue
			case <-end:
			}
			break
		}
		if atomic.LoadInt32(&fired) == 1 {
			// the panic was raised on the input goroutine ten seconds ago
			// and the process is still here: it was swallowed. Nobody reads
			// input any more; was the terminal at least restored?
			var now map[string]string
			con.With(func() { now = t.ModeTable() })
			dump := harness.AllStacks()
			if d := diffTables(prior, now); len(d) > 0 && !strings.Contains(dump, "vaxis.(*Vaxis).openTty.func1") {
				w.Violation("not-restored:panic-swallowed:"+strings.SplitN(d[0], ":", 2)[0], "the input goroutine panicked (injected, with a value that is no error) and ended without restoring the terminal or passing the panic on: the process lives on without input: "+strings.Join(d, "; "), c, strings.Join(d, "; "), "the terminal is restored and the panic propagates")
				return
			}
		}
		goto hung
	}
	timeout = time.After(6 * time.Second)
	for !closedOK {
		if drain {
			select {
			case <-done:
				closedOK = true
			case <-vx.Events():
			case <-timeout:
				goto hung
			}
		} else {
			select {
			case <-done:
				closedOK = true
			case <-timeout:
				goto hung
			}
		}
	}
	{
		var closed bool
		con.With(func() { closed = con.CloseCalls > 0 })
		if !closed && strings.HasPrefix(c.Trigger, "sig") {
			goto hung
		}
		var after map[string]string
		con.With(func() { after = t.ModeTable() })
		if d := diffTables(prior, after); len(d) > 0 {
			w.Violation("not-restored:"+c.Trigger+":"+strings.SplitN(d[0], ":", 2)[0], fmt.Sprintf("after shutdown (%s) the terminal is not back at its prior state: %s", c.Trigger, strings.Join(d, "; ")), c, strings.Join(d, "; "), "mode table equals the one before New")
		}
		if len(c.Script) > 2 {
			w.Sample(c)
		}
		return
	}
hung:
	{
		dump := harness.AllStacks()
		inWait := strings.Contains(dump, "ansi.(*Parser).WaitClose")
		inEmit := strings.Contains(dump, "ansi.(*Parser).emit")
		inPost := strings.Contains(dump, "vaxis.(*Vaxis).PostEventBlocking")
		if !inWait && inPost && strings.HasPrefix(c.Trigger, "sig") {
			// the signal is only looked at between sequences: with the event
			// queue full the input goroutine is parked posting and never
			// gets there
			key := "signal-not-handled-while-event-queue-full"
			w.ViolationStack(key, fmt.Sprintf("%s was delivered but the library never started shutting down: its input goroutine is parked in PostEventBlocking (event queue of %d full, application not reading)", c.Trigger, c.QueueSz), c, "console not closed, modes not reset after 6s", "terminal restored", clipDump(dump))
		} else if inWait && (inEmit || inPost) {
			key := "shutdown-never-returns:" + c.Trigger
			w.ViolationStack(key, fmt.Sprintf("shutdown (%s) did not complete: a goroutine is parked in WaitClose while the parser is parked in emit (nobody drains the parser) - the terminal was not restored", c.Trigger), c, "Close/Suspend still blocked after 20s", "returns with the terminal restored", clipDump(dump))
		} else {
			w.Inconclusive("shutdown-timeout-without-corroboration:" + c.Trigger)
		}
	}
}

func clipDump(d string) string {
	var keep []string
	for _, blk := range strings.Split(d, "\n\n") {
		if strings.Contains(blk, "rockorager/vaxis") {
			keep = append(keep, blk)
		}
	}
	s := strings.Join(keep, "\n\n")
	if len(s) > 5000 {
		s = s[:5000]
	}
	return s
}

func (c check) Run(w *harness.W, b harness.Batch) {
	var s spec
	json.Unmarshal(b.Spec, &s)
	switch s.Kind {
	case "inprocess":
		r := gen.New(b.Seed)
		subs := 1 << len(flagBits)
		if w.Tier == "thorough" {
			// every subset of the flags that change what is emitted, with 6
			// different scripts/triggers each, then random masks over all 17 flags
			for rep := 0; rep < 6; rep++ {
				for sub := 0; sub < subs; sub++ {
					if sub%s.Of != s.Part {
						continue
					}
					runCase(w, genCase(r, uint32(sub)))
				}
			}
			for i := 0; i < 160; i++ {
				cc := genCase(r, 0)
				cc.Caps = uint32(r.Intn(1 << 17))
				runCase(w, cc)
			}
			smallQueue(w, b.Seed, 40)
			w.Count("exhaustive_spaces", 1)
			return
		}
		for sub := 0; sub < subs; sub++ {
			if sub%s.Of != s.Part {
				continue
			}
			runCase(w, genCase(r, uint32(sub)))
		}
		smallQueue(w, b.Seed, 3)
		w.Count("exhaustive_spaces", 1)
	case "panic":
		var cc caseT
		json.Unmarshal(s.Case, &cc)
		runCase(w, cc)
	}
}

// JudgeCrash: the injected panic kills the process by design (the library's
// recover handler closes Vaxis and panics again). The terminal state recorded
// after the last console write decides the property.
func (check) JudgeCrash(journal, panicVal, stack string) (bool, *harness.Violation) {
	if strings.HasPrefix(panicVal, "exit: signal:") {
		// the worker was killed by a signal while a signal case was in progress:
		// the library had no handler installed, nobody restored the terminal
		var j journalT
		if err := json.Unmarshal([]byte(journal), &j); err != nil || !strings.HasPrefix(j.Phase, "signal-sent") {
			return false, nil
		}
		d := diffTables(j.Prior, j.Last)
		cb, _ := json.Marshal(j.Case)
		return true, &harness.Violation{Key: "not-restored:signal:process-killed-without-handler",
			What:     "the termination signal killed the process (" + panicVal + "): the library had no handler installed for this capability set, and the terminal was left as it was: " + strings.Join(d, "; "),
			Case:     cb,
			Observed: strings.Join(d, "; "), Expected: "the signal is handled: the terminal is restored before the process ends"}
	}
	if !strings.Contains(panicVal, panicMarker) {
		return false, nil
	}
	var j journalT
	if err := json.Unmarshal([]byte(journal), &j); err != nil || j.Last == nil {
		return false, nil
	}
	d := diffTables(j.Prior, j.Last)
	if len(d) == 0 {
		return true, nil
	}
	cb, _ := json.Marshal(j.Case)
	return true, &harness.Violation{Key: "not-restored:panic:" + strings.SplitN(d[0], ":", 2)[0],
		What:     "the input goroutine panicked (injected) and the process died, but the terminal was not restored: " + strings.Join(d, "; "),
		Case:     cb,
		Observed: strings.Join(d, "; "), Expected: "mode table equals the one before New", Stack: stack}
}

func (check) Finalize(tier string, m *harness.Merged) string {
	if m.Counts["cases_close"] == 0 || m.Counts["cases_sigterm"] == 0 {
		return "a trigger was never exercised"
	}
	if m.Counts["expected_process_deaths_judged"] == 0 {
		return "no panic-trigger case was judged"
	}
	return ""
}
