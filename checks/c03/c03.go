// Package c03: every terminal report becomes the right event; the input loop
// survives any input (DESIGN.md §3 C03).
package c03

import (
	"context"
	"encoding/hex"
	"encoding/json"
	"fmt"
	"strings"
	"sync/atomic"
	"time"

	"git.sr.ht/~rockorager/vaxis"
	"git.sr.ht/~rockorager/vaxis/verifhook"

	"verif/internal/gen"
	"verif/internal/harness"
	"verif/internal/memcon"
	"verif/internal/refterm"
	"verif/internal/vxh"
)

type check struct{}

func init() { harness.Register(check{}) }

func (check) ID() string    { return "C03" }
func (check) Level() string { return "exploration" }
func (check) Rule() string {
	return "streams of 20-400 segments: tagged user-input tokens with unique values (legacy and kitty keys, SGR mouse reports, focus in/out, bracketed pastes with keys and escape sequences inside), legacy X10 mouse reports, solicited/unsolicited/repeated/truncated/malformed replies of every kind handleSequence knows, and byte soup, injected in random chunks under sampled capability sets; each segment is closed by a unique sentinel so the event log is partitioned unambiguously; query calls (CursorPosition, colour queries, ClipboardPop) run from helper goroutines with the reply arriving early, in time, late (armed delay point) or never. A case is one stream; distinct = hash of its segments; non-trivial = it contains at least one tagged token"
}
func (check) Assumptions() []string {
	return []string{
		"the expected event of a token is computed by the generator from the chord it encoded, independently of decodeKey",
		"events of unexported types (capability notifications leaking after start-up) are ignored",
		"a wedge is reported only with goroutine-dump evidence (input goroutine parked in a library frame) and an undelivered sentinel",
	}
}

type spec struct {
	Kind string `json:"kind"`
	N    int    `json:"n"`
}

func (check) Plan(tier string, seed int64) []harness.Batch {
	var bs []harness.Batch
	n, nq := 400, 100
	if tier == "thorough" {
		n, nq = 12500, 600
	}
	for i := 0; i < 16; i++ {
		s, _ := json.Marshal(spec{Kind: "streams", N: n})
		bs = append(bs, harness.Batch{Name: fmt.Sprintf("streams-%d", i), Seed: seed*1000003 + int64(i), Spec: s, TimeoutS: 3000, CaseTimeoutS: 150})
	}
	for i := 0; i < 4; i++ {
		s, _ := json.Marshal(spec{Kind: "queries", N: nq})
		bs = append(bs, harness.Batch{Name: fmt.Sprintf("queries-%d", i), Seed: seed*1000033 + int64(i), Spec: s, TimeoutS: 3000, CaseTimeoutS: 150})
	}
	for i := 0; i < 2; i++ {
		// size queries (CSI 14 t / CSI 18 t) are only used with this switch
		s, _ := json.Marshal(spec{Kind: "size-queries", N: nq / 5})
		bs = append(bs, harness.Batch{Name: fmt.Sprintf("size-queries-%d", i), Seed: seed*1000039 + int64(i), Spec: s, TimeoutS: 3000, CaseTimeoutS: 150, Env: []string{"VAXIS_FORCE_XTWINOPS=1"}})
	}
	if tier == "thorough" {
		for i := 0; i < 4; i++ {
			s, _ := json.Marshal(spec{Kind: "streams", N: 300})
			bs = append(bs, harness.Batch{Name: fmt.Sprintf("streams-race-%d", i), Seed: seed*1000037 + int64(i), Spec: s, TimeoutS: 3000, CaseTimeoutS: 300, Race: true})
		}
	}
	return bs
}

// Seg is one segment of a stream.
type Seg struct {
	Kind string `json:"kind"` // token | garbage | reply | x10
	Hex  string `json:"hex"`
	Desc string `json:"desc,omitempty"`
	// expected events for token segments, in a comparable textual form
	Want []string `json:"want,omitempty"`
	// for reply segments: well-formed (must not surface as key/mouse)
	WellFormed bool `json:"well_formed,omitempty"`
	// Complete: the segment ends where a sequence ends, so no resync is
	// inserted after it (what follows meets the parser as the reply left it)
	Complete bool `json:"complete,omitempty"`
	// PauseMs: silence after the segment's bytes, before the marker key that
	// closes it (a lone ESC followed by silence is the Escape key)
	PauseMs int `json:"pause_after_ms,omitempty"`
}

type streamCase struct {
	Caps   uint32 `json:"caps_mask"`
	Segs   []Seg  `json:"segs"`
	Chunks []int  `json:"chunks"`
	// Queue: Options.EventQueueSize (0 = the default, 1024); Slow: the
	// consumer starts reading only after the whole stream has been written,
	// so the input loop works against a full queue
	Queue int  `json:"event_queue_size,omitempty"`
	Slow  bool `json:"slow_consumer,omitempty"`
	// SuspendFirst: before the stream, Queue+1 keys are typed and not read
	// (the input goroutine waits to deliver the last one), the application
	// suspends and resumes, then reads on
	SuspendFirst bool `json:"suspend_and_resume_with_undelivered_keys_first,omitempty"`
	// SixelVia: a terminal with sixel support announces it in the device
	// attributes only ("da1"), in the graphics reply only ("xtsmgraphics") or
	// in both ("")
	SixelVia string `json:"sixel_announced_by,omitempty"`
}

func evText(ev vaxis.Event) (string, bool) {
	switch e := ev.(type) {
	case vaxis.Key:
		return fmt.Sprintf("key(code=%d shifted=%d base=%d mods=%d type=%d text=%q)", e.Keycode, e.ShiftedCode, e.BaseLayoutCode, e.Modifiers, e.EventType, e.Text), true
	case vaxis.Mouse:
		return fmt.Sprintf("mouse(button=%d col=%d row=%d type=%d mods=%d)", e.Button, e.Col, e.Row, e.EventType, e.Modifiers), true
	case vaxis.FocusIn:
		return "focus-in", true
	case vaxis.FocusOut:
		return "focus-out", true
	case vaxis.PasteStartEvent:
		return "paste-start", true
	case vaxis.PasteEndEvent:
		return "paste-end", true
	case vaxis.ColorThemeUpdate:
		return fmt.Sprintf("color-theme(%d)", e.Mode), true
	case vaxis.Resize, vaxis.Redraw, vaxis.SyncFunc, vaxis.QuitEvent:
		return fmt.Sprintf("%T", ev), true
	}
	return "", false // unexported internal type
}

func keyText(code, shifted rune, mods, typ int, text string) string {
	return fmt.Sprintf("key(code=%d shifted=%d base=0 mods=%d type=%d text=%q)", code, shifted, mods, typ, text)
}

type genState struct {
	r       gen.R
	nextTag rune
	nextPos int
	focused bool
	// escapes: the stream contains lone ESC keys, each followed by silence
	escapes bool
}

func (g *genState) tag() rune {
	g.nextTag++
	return 0xE100 + g.nextTag%0x1500
}

const evPaste = 4

func (g *genState) keyToken(paste bool) (string, string) {
	typ := 0
	if paste {
		typ = evPaste
	}
	c := g.tag()
	switch g.r.Intn(4) {
	case 3: // legacy Alt chord: ESC + character (Alt+\ is byte-identical to ST)
		if paste {
			return string(c), keyText(c, 0, 0, typ, string(c))
		}
		if g.r.Intn(2) == 0 {
			return "\x1b\\", keyText('\\', 0, 2, 0, "")
		}
		l := rune('a' + g.r.Intn(26))
		return "\x1b" + string(l), keyText(l, 0, 2, 0, "")
	case 0: // legacy character
		if g.r.Intn(8) == 0 {
			// a well-formed U+FFFD (what a badly transcoded document
			// contains): one character, not three invalid bytes
			return "\ufffd", keyText(0xFFFD, 0, 0, typ, "\ufffd")
		}
		return string(c), keyText(c, 0, 0, typ, string(c))
	case 1: // kitty with modifiers
		mods := g.r.Intn(64)
		et := g.r.Intn(3)
		t := et
		if paste {
			t = evPaste
		}
		s := fmt.Sprintf("\x1b[%d;%d:%du", c, mods+1, et+1)
		return s, keyText(c, 0, mods, t, "")
	default: // kitty with text
		s := fmt.Sprintf("\x1b[%d;1;%du", c, c)
		return s, keyText(c, 0, 0, typ, string(c))
	}
}

func (g *genState) token() Seg {
	r := g.r
	if g.escapes && r.Intn(20) == 0 {
		return Seg{Kind: "token", Hex: "1b", Desc: "lone-escape", PauseMs: 40, Want: []string{fmt.Sprintf("key(code=%d shifted=0 base=0 mods=0 type=0 text=\"\")", vaxis.KeyEsc)}}
	}
	switch r.Intn(10) {
	case 0, 1, 2, 3:
		b, w := g.keyToken(false)
		return Seg{Kind: "token", Hex: hex.EncodeToString([]byte(b)), Desc: "key", Want: []string{w}}
	case 4, 5, 6:
		g.nextPos++
		col, row := 1000+g.nextPos, 1+r.Intn(500)
		btn := []int{0, 1, 2, 64, 65, 128, 129, 130, 131}[r.Intn(9)]
		mods := 0
		enc := btn
		if r.Intn(2) == 0 {
			m := r.Intn(8)
			if m&1 != 0 {
				enc |= 4
				mods |= 1
			}
			if m&2 != 0 {
				enc |= 8
				mods |= 2
			}
			if m&4 != 0 {
				enc |= 16
				mods |= 4
			}
		}
		typ := 0 // press
		fin := "M"
		switch r.Intn(4) {
		case 0:
			typ, fin = 2, "m" // release
		case 1:
			typ = 3 // motion
			enc |= 32
			if r.Intn(2) == 0 {
				// motion without a button
				enc = enc&^0xC3 | 3
				btn = 3
			}
		}
		s := fmt.Sprintf("\x1b[<%d;%d;%d%s", enc, col, row, fin)
		return Seg{Kind: "token", Hex: hex.EncodeToString([]byte(s)), Desc: "sgr-mouse", Want: []string{fmt.Sprintf("mouse(button=%d col=%d row=%d type=%d mods=%d)", btn, col-1, row-1, typ, mods)}}
	case 7:
		g.focused = !g.focused
		if g.focused {
			return Seg{Kind: "token", Hex: hex.EncodeToString([]byte("\x1b[I")), Desc: "focus-in", Want: []string{"focus-in"}}
		}
		return Seg{Kind: "token", Hex: hex.EncodeToString([]byte("\x1b[O")), Desc: "focus-out", Want: []string{"focus-out"}}
	default: // bracketed paste
		var sb strings.Builder
		want := []string{"paste-start"}
		sb.WriteString("\x1b[200~")
		for k := r.Intn(8); k > 0; k-- {
			switch r.Intn(5) {
			case 0:
				// an escape sequence inside the paste: cursor key
				sb.WriteString("\x1b[A")
				want = append(want, fmt.Sprintf("key(code=%d shifted=0 base=0 mods=0 type=%d text=\"\")", vaxis.KeyUp, evPaste))
			case 1:
				sb.WriteString("\r")
				want = append(want, fmt.Sprintf("key(code=%d shifted=0 base=0 mods=0 type=%d text=\"\")", vaxis.KeyEnter, evPaste))
			default:
				b, w := g.keyToken(true)
				sb.WriteString(b)
				want = append(want, w)
			}
		}
		sb.WriteString("\x1b[201~")
		want = append(want, "paste-end")
		return Seg{Kind: "token", Hex: hex.EncodeToString([]byte(sb.String())), Desc: "paste", Want: want}
	}
}

var replies = []string{
	"\x1b[?62;4c", "\x1b[?62c", "\x1b[?1;2c",
	"\x1b[?2026;1$y", "\x1b[?2026;2$y", "\x1b[?2027;0$y", "\x1b[?2031;1$y", "\x1b[?2048;2$y", "\x1b[?9999;1$y",
	"\x1b[5;7R", "\x1b[1;1R",
	"\x1b[?2;0;640;480S", "\x1b[?2;3;0S",
	"\x1b[4;480;640t", "\x1b[8;24;80t", "\x1b[8;30;100t", "\x1b[48;24;80;480;640t",
	"\x1b[?997;1n", "\x1b[?997;2n",
	"\x1bP1+r524742=382F382F38\x1b\\", "\x1bP0+r536D756C78\x1b\\", "\x1bP1+r536D756C78=1B5B343A25703125646D\x1b\\",
	"\x1bP1$r2 q\x1b\\", "\x1bP0$r\x1b\\", "\x1bP1$r9 q\x1b\\",
	"\x1bP>|refterm(1.0)\x1b\\", "\x1bP!|7E565445\x1b\\",
	"\x1b_Gi=1;OK\x1b\\", "\x1b_Gi=31;ENOENT:no\x1b\\",
	"\x1b]4;1;rgb:cdcd/0000/0000\x1b\\", "\x1b]10;rgb:d0d0/d0d0/d0d0\x07", "\x1b]11;rgb:1010/1010/1010\x07", "\x1b]11;rgb:ffff/0000/0000\x1b\\",
	"\x1b]52;c;aGVsbG8=\x1b\\", "\x1b]52;c;!!!\x1b\\", "\x1b]176;someapp\x1b\\",
	"\x1b[?1u", "\x1b[?31u",
}

// sequences no handler of the library knows: nothing may come of them
var inert = []string{"\x1b_Xjunk\x1b\\", "\x1b_zz=1;OK\x1b\\", "\x1b]1337;File=x\x07", "\x1b]7;file:///tmp\x1b\\", "\x1bP=1sdata\x1b\\", "\x1b^private\x1b\\"}

func (g *genState) reply() (seg Seg) {
	r := g.r
	if r.Intn(8) == 0 {
		s := inert[r.Intn(len(inert))]
		return Seg{Kind: "reply", Hex: hex.EncodeToString([]byte(s)), Desc: fmt.Sprintf("inert %q", s), WellFormed: true, Complete: true}
	}
	s := replies[r.Intn(len(replies))]
	// a DCS with an empty data string followed by ST also delivers the ST
	// (C02's open finding extra-ST:after-dcs:empty): not judged again here
	emptyDCS := s == "\x1bP0$r\x1b\\"
	defer func() {
		if emptyDCS {
			seg.WellFormed = false
		}
	}()
	switch r.Intn(6) {
	case 0: // repeated
		n := r.Range(2, 5)
		return Seg{Kind: "reply", Hex: hex.EncodeToString([]byte(strings.Repeat(s, n))), Desc: fmt.Sprintf("repeated x%d %q", n, s), WellFormed: true, Complete: true}
	case 1: // truncated
		cut := r.Range(1, len(s)-1)
		return Seg{Kind: "reply", Hex: hex.EncodeToString([]byte(s[:cut])), Desc: fmt.Sprintf("truncated %q", s[:cut])}
	case 2: // malformed: parameters removed or garbled
		m := strings.NewReplacer(";", "", "1", "", "=", ";").Replace(s)
		if semis := strings.Count(s, ";"); semis > 0 {
			switch v := r.Intn(4); v {
			case 0, 1:
				// one parameter (with its separator) missing: the k-th
				// ";..." field is cut out up to the next ';' or the end of
				// the parameter bytes
				k := r.Intn(semis)
				at := 0
				for i := 0; i < len(s); i++ {
					if s[i] == ';' {
						if k == 0 {
							at = i
							break
						}
						k--
					}
				}
				end := at + 1
				for end < len(s) && (s[end] >= '0' && s[end] <= '9' || s[end] == ':') {
					end++
				}
				m = s[:at] + s[end:]
			case 2:
				// every parameter empty, separators kept
				var sb strings.Builder
				for i := 0; i < len(s); i++ {
					if i > 1 && s[i] >= '0' && s[i] <= '9' && (s[1] == '[') {
						continue
					}
					sb.WriteByte(s[i])
				}
				m = sb.String()
			}
		}
		return Seg{Kind: "reply", Hex: hex.EncodeToString([]byte(m)), Desc: fmt.Sprintf("malformed %q", m)}
	default:
		return Seg{Kind: "reply", Hex: hex.EncodeToString([]byte(s)), Desc: fmt.Sprintf("unsolicited %q", s), WellFormed: true, Complete: true}
	}
}

func (g *genState) garbage() Seg {
	r := g.r
	n := r.Range(1, 40)
	b := make([]byte, n)
	for i := range b {
		switch r.Intn(6) {
		case 0:
			b[i] = 0x1b
		case 1:
			b[i] = "[]OP_^X\\;:?<>=~Mmtcu$"[r.Intn(21)]
		default:
			b[i] = byte(r.Intn(256))
			if b[i] == 0xf3 {
				// lead byte of the marker keys (U+F0000...): random bytes
				// must not spell a marker
				b[i] = 0xf2
			}
		}
	}
	return Seg{Kind: "garbage", Hex: hex.EncodeToString(b), Desc: "soup"}
}

func (g *genState) x10() Seg {
	r := g.r
	s := "\x1b[M" + string([]byte{byte(32 + r.Intn(4)), byte(33 + r.Intn(90)), byte(33 + r.Intn(90))})
	if r.Intn(4) == 0 {
		s = "\x1b[m" // bare final, no parameters at all
	}
	return Seg{Kind: "x10", Hex: hex.EncodeToString([]byte(s)), Desc: "legacy X10 mouse report"}
}

func genStream(r gen.R) streamCase {
	g := &genState{r: r, escapes: r.Intn(4) == 0}
	sc := streamCase{}
	switch r.Intn(4) {
	case 0:
		sc.Caps = 0
	case 1:
		sc.Caps = 0x1ffff
	default:
		sc.Caps = uint32(r.Int63()) & 0x1ffff
	}
	n := r.Range(20, 120)
	if r.Intn(6) == 0 {
		n = r.Range(200, 400)
	}
	sc.SixelVia = []string{"", "da1", "xtsmgraphics"}[r.Intn(3)]
	if r.Intn(4) == 0 {
		// a queue larger than the number of start-up notifications (which
		// are posted without blocking) and smaller than the stream's events
		sc.Queue, sc.Slow = r.Range(48, 96), true
		g.escapes = false // silence means nothing to a parser that is not reading
		sc.SuspendFirst = r.Intn(2) == 0
		if n < 150 {
			n = r.Range(150, 250)
		}
	}
	for i := 0; i < n; i++ {
		switch k := r.Intn(20); {
		case k < 12:
			sc.Segs = append(sc.Segs, g.token())
		case k < 16:
			sc.Segs = append(sc.Segs, g.reply())
		case k < 18:
			sc.Segs = append(sc.Segs, g.garbage())
		default:
			sc.Segs = append(sc.Segs, g.x10())
		}
	}
	return sc
}

func hasEscape(evs []string) bool {
	for _, e := range evs {
		if strings.HasPrefix(e, fmt.Sprintf("key(code=%d ", vaxis.KeyEsc)) {
			return true
		}
	}
	return false
}

func sentinelRune(i int) rune { return rune(0xF0000 + i%0xFFF0) }

// wire builds the byte stream: each segment followed by its sentinel; after
// segments that may leave the parser or the paste state dangling a resync
// (CAN, paste end) precedes the sentinel.
func wire(sc streamCase) []byte {
	out, _ := wirePauses(sc)
	return out
}

// wirePauses also returns the byte offsets after which the writer pauses,
// with the length of each pause.
func wirePauses(sc streamCase) ([]byte, map[int]int) {
	pauses := map[int]int{}
	out := wireBytes(sc, pauses)
	return out, pauses
}

func wireBytes(sc streamCase, pauses map[int]int) []byte {
	var out []byte
	for i, s := range sc.Segs {
		b, _ := hex.DecodeString(s.Hex)
		out = append(out, b...)
		if s.PauseMs > 0 {
			// the pause and the segment it belongs to
			pauses[len(out)] = s.PauseMs + 1000*i
		}
		if s.Kind != "token" && !s.Complete {
			out = append(out, 0x18)
			out = append(out, "\x1b[201~"...)
		}
		out = append(out, string(sentinelRune(i))...)
	}
	return out
}

func runStream(w *harness.W, sc streamCase, r gen.R) (violKey string) {
	cj, _ := json.Marshal(sc)
	w.Begin(string(cj))
	defer w.End()
	caps := refterm.CapsFromMask(sc.Caps)
	sess, err := vxh.Start(80, 24, caps, vaxis.Options{EventQueueSize: sc.Queue}, func(t *refterm.Terminal, c *memcon.Console) {
		t.SixelVia = sc.SixelVia
	})
	if err != nil {
		w.Inconclusive("start-failed")
		return ""
	}
	if _, ok := sess.Sync(); !ok {
		w.Inconclusive("startup-sync-timeout")
		return ""
	}
	closed := false
	defer func() {
		if !closed {
			sess.Close()
		}
	}()
	// capabilities after New equal the terminal's flags
	if d := capsDiff(sess.Vx, caps); strings.HasPrefix(d, "explicitwidth reported=false") {
		// detection waits 50ms for a cursor position report: on a loaded
		// machine the deadline passes before the reply is processed
		w.Inconclusive("explicit-width-probe-deadline-passed")
	} else if d != "" {
		w.Violation("caps:"+strings.SplitN(d, " ", 2)[0], "capabilities after New differ from what the terminal advertised: "+d, sc, d, "exactly the advertised features")
	}
	if sc.SuspendFirst && sc.Queue > 0 {
		keys := make([]byte, sc.Queue+1)
		for i := range keys {
			keys[i] = byte('a' + i%26)
		}
		sess.Con.Inject(keys)
		// wait until the queue is full and the input goroutine is waiting to
		// deliver the last key (goroutine dump), so that nothing is still on
		// its way through the parser when the application suspends
		inHand := false
		for k := 0; k < 500 && !inHand; k++ {
			time.Sleep(10 * time.Millisecond)
			if sess.Con.PendingInput() > 0 || len(sess.Vx.Events()) < sc.Queue {
				continue
			}
			for _, blk := range strings.Split(harness.AllStacks(), "\n\n") {
				if strings.Contains(blk, "vaxis.(*Vaxis).PostEventBlocking") && strings.Contains(blk, "[chan send") {
					inHand = true
				}
			}
		}
		if !inHand {
			w.Inconclusive("input-goroutine-never-reached-the-full-queue")
			return ""
		}
		srDone := make(chan struct{})
		go func() {
			defer close(srDone)
			sess.Vx.Suspend()
			sess.Vx.Resume()
		}()
		select {
		case <-srDone:
		case <-time.After(20 * time.Second):
			closed = true
			w.Inconclusive("suspend-resume-did-not-return")
			return ""
		}
		var got []byte
		t := time.After(10 * time.Second)
	pre:
		for len(got) < len(keys) {
			select {
			case ev := <-sess.Vx.Events():
				if k, ok := ev.(vaxis.Key); ok && k.Keycode < 128 {
					got = append(got, byte(k.Keycode))
				}
			case <-t:
				break pre
			}
		}
		w.Count("streams_after_suspend_resume_with_undelivered_keys", 1)
		if string(got) != string(keys) {
			key := "suspend-resume:keys-typed-before-suspend:lost-or-reordered"
			w.Violation(key, fmt.Sprintf("%d keys typed before Suspend/Resume with an event queue of %d that the application had not read yet", len(keys), sc.Queue), sc, string(got), string(keys))
			return key
		}
		// let the input goroutine of the first session end, and what the
		// terminal answered to Resume's own queries pass
		time.Sleep(20 * time.Millisecond)
		if _, ok := sess.Sync(); !ok {
			w.Inconclusive("sync-after-resume-timeout")
			return ""
		}
	}
	data, pauses := wirePauses(sc)
	// inject in random chunks
	if sc.Chunks == nil {
		rem := len(data)
		for rem > 0 {
			c := r.Range(1, 300)
			if r.Intn(4) == 0 {
				c = r.Range(1, 8)
			}
			if c > rem {
				c = rem
			}
			sc.Chunks = append(sc.Chunks, c)
			rem -= c
		}
	}
	injected := make(chan struct{})
	var markersSeen int32
	go func() {
		defer close(injected)
		off := 0
		for _, c := range sc.Chunks {
			if off+c > len(data) {
				c = len(data) - off
			}
			// a write never ends right after an ESC: on a loaded machine
			// the pause before the next write can exceed the 10 ms after
			// which a lone ESC is, legitimately, the Escape key (C08)
			for off+c < len(data) && c > 0 && data[off+c-1] == 0x1b && pauses[off+c] == 0 {
				c++
			}
			// a pause inside this chunk cuts it
			for end := off + c; off < end; {
				cut := end
				for q := off + 1; q < end; q++ {
					if pauses[q] > 0 {
						cut = q
						break
					}
				}
				sess.Con.Inject(data[off:cut])
				off = cut
				if pv := pauses[cut]; pv > 0 {
					ms, seg := pv%1000, pv/1000
					// the silence starts when everything before the ESC has
					// reached the application and the ESC has been read
					for k := 0; k < 100000 && int(atomic.LoadInt32(&markersSeen)) < seg; k++ {
						time.Sleep(100 * time.Microsecond)
					}
					for k := 0; k < 50000 && sess.Con.PendingInput() > 0; k++ {
						time.Sleep(100 * time.Microsecond)
					}
					time.Sleep(time.Duration(ms) * time.Millisecond)
				}
			}
		}
		if off < len(data) {
			sess.Con.Inject(data[off:])
		}
	}()
	if sc.Slow {
		<-injected
		time.Sleep(5 * time.Millisecond)
	}
	// collect events per segment
	got := make([][]string, len(sc.Segs))
	other := make([][]string, len(sc.Segs)) // types of the events evText does not describe
	i := 0
	deadline := time.After(8 * time.Second)
	for i < len(sc.Segs) {
		select {
		case ev := <-sess.Vx.Events():
			if k, ok := ev.(vaxis.Key); ok && k.Keycode == sentinelRune(i) {
				if k.Modifiers != 0 && sc.Segs[i].PauseMs > 0 && !hasEscape(got[i]) {
					// the silence after the lone ESC was not seen by a parser
					// that was held up: ESC and the next key read together
					// are, legitimately, an Alt chord
					w.Inconclusive("lone-escape-read-together-with-the-next-key")
					return ""
				}
				if k.Modifiers != 0 {
					key := "order:marker-key-altered:after-" + sc.Segs[i].Kind
					w.Violation(key, fmt.Sprintf("the unmodified key typed after segment %d (%s) was delivered with modifiers %d: the bytes before it still held the parser", i, sc.Segs[i].Desc, k.Modifiers), sc, fmt.Sprintf("modifiers %d", k.Modifiers), "modifiers 0")
					return key
				}
				i++
				atomic.StoreInt32(&markersSeen, int32(i))
				continue
			}
			if k, ok := ev.(vaxis.Key); ok && k.Keycode > sentinelRune(i) && k.Keycode < sentinelRune(i)+rune(len(sc.Segs)-i) && len(sc.Segs) < 0xFFF0 {
				if sc.Segs[i].PauseMs > 0 && !hasEscape(got[i]) {
					// no Escape was reported: the silence after the lone ESC
					// was not seen by a parser that was held up, and an ESC
					// read together with the marker swallows it
					w.Inconclusive("lone-escape-read-together-with-the-next-key")
					return ""
				}
				key := "order:later-input-delivered-first"
				w.Violation(key, fmt.Sprintf("the marker key closing segment %d was delivered while the marker of segment %d was still outstanding", int(k.Keycode-sentinelRune(0)), i), sc, fmt.Sprintf("marker %d (events of segment %d so far: %v)", int(k.Keycode-sentinelRune(0)), i, got[i]), fmt.Sprintf("marker %d", i))
				return key
			}
			if t, ok := evText(ev); ok {
				got[i] = append(got[i], t)
			}
			if _, ok := evText(ev); !ok {
				other[i] = append(other[i], fmt.Sprintf("%T", ev))
			}
		case <-deadline:
			// liveness: corroborate with a goroutine dump
			dump := harness.AllStacks()
			closed = true // do not call Close on a wedged loop
			for _, blk := range strings.Split(dump, "\n\n") {
				if strings.Contains(blk, "vaxis.(*Vaxis).openTty.func1") || strings.Contains(blk, "vaxis.(*Vaxis).handleSequence") {
					fn := harness.InnermostVaxisFrame(blk)
					state := "?"
					if a := strings.Index(blk, "["); a > 0 {
						if b := strings.Index(blk[a:], "]"); b > 0 {
							state = strings.SplitN(blk[a+1:a+b], ",", 2)[0]
						}
					}
					if strings.HasPrefix(state, "chan") || state == "select" {
						if fn == "vaxis.(*Vaxis).openTty.func1" && state == "select" {
							continue // idle loop, not parked
						}
						key := "wedge:" + strings.ReplaceAll(state, " ", "-") + "@" + fn
						w.ViolationStack(key, fmt.Sprintf("the input loop stopped consuming at segment %d (%s): sentinel not delivered, input goroutine parked in %s", i, sc.Segs[i].Desc, fn), sc, "sentinel "+fmt.Sprint(i)+" not delivered", "every sentinel delivered", blk)
						return key
					}
				}
			}
			w.Inconclusive("sentinel-timeout-without-corroboration")
			return ""
		}
	}
	tokens := 0
	for si, s := range sc.Segs {
		w.Count("segments_"+s.Kind, 1)
		switch s.Kind {
		case "token":
			tokens++
			w.Count("tagged_events_expected", int64(len(s.Want)))
			if strings.Join(got[si], " | ") != strings.Join(s.Want, " | ") {
				kind := "altered"
				switch {
				case len(got[si]) < len(s.Want):
					kind = "lost"
				case len(got[si]) > len(s.Want):
					kind = "duplicated-or-extra"
				}
				key := "token:" + s.Desc + ":" + kind
				w.Violation(key, fmt.Sprintf("segment %d (%s): events differ from the token sent", si, s.Desc), sc, strings.Join(got[si], " | "), strings.Join(s.Want, " | "))
				return key
			}
		case "reply":
			if strings.HasPrefix(s.Desc, "inert ") && (len(got[si]) > 0 || len(other[si]) > 0) {
				key := "unknown-sequence-produced-an-event"
				w.Violation(key, fmt.Sprintf("segment %d (%s): a control string that is no reply to anything the library asks produced events (an earlier string's content attributed to it?)", si, s.Desc), sc, strings.Join(append(append([]string{}, got[si]...), other[si]...), " | "), "no event")
				return key
			}
			if s.WellFormed {
				for _, e := range got[si] {
					// the resync (Ctrl+x, paste-end) is ours
					if strings.HasPrefix(e, "key(code=120 ") || e == "paste-end" {
						continue
					}
					if strings.HasPrefix(e, "key(") || strings.HasPrefix(e, "mouse(") {
						// a cursor position report without an outstanding
						// request is indistinguishable from a function key
						if strings.Contains(s.Desc, "R\"") {
							continue
						}
						key := "reply-surfaced-as-input:" + replyKind(s.Desc)
						w.Violation(key, fmt.Sprintf("segment %d (%s): a well-formed reply surfaced as user input", si, s.Desc), sc, e, "consumed internally")
						return key
					}
				}
			}
		}
	}
	if tokens > 0 {
		w.Case(string(cj))
	} else {
		w.Eval(1)
	}
	w.Distinct("caps_masks", fmt.Sprint(sc.Caps))
	if sc.Slow {
		w.Count("streams_against_a_full_event_queue", 1)
	}
	if len(sc.Segs) > 30 {
		w.Sample(map[string]any{"caps_mask": sc.Caps, "segments": len(sc.Segs), "first_segments": sc.Segs[:6]})
	}
	return ""
}

func replyKind(desc string) string {
	for _, k := range []string{"$y", "+r", "$r", ">|", "!|", "_G", "]4;", "]10;", "]11;", "]52;", "]176;", "t\"", "S\"", "c\"", "n\"", "u\""} {
		if strings.Contains(desc, k) {
			return strings.Trim(k, "\"")
		}
	}
	return "other"
}

func capsDiff(vx *vaxis.Vaxis, c refterm.Caps) string {
	type pair struct {
		name      string
		got, want bool
	}
	ps := []pair{
		{"rgb", vx.CanRGB(), c.RGB},
		{"kittygraphics", vx.CanKittyGraphics(), c.KittyGfx},
		{"sixel", vx.CanSixel(), c.Sixel},
		{"osc4", vx.CanReportColor(), c.OSC4},
		{"osc10", vx.CanReportForegroundColor(), c.OSC1011},
		{"osc11", vx.CanReportBackgroundColor(), c.OSC1011},
		{"osc176", vx.CanSetAppID(), c.OSC176},
		{"unicode", vx.CanUnicodeCore(), c.Unicode},
		{"explicitwidth", vx.CanExplicitWidth(), c.ExplicitWidth},
	}
	for _, p := range ps {
		if p.got != p.want {
			return fmt.Sprintf("%s reported=%v advertised=%v", p.name, p.got, p.want)
		}
	}
	if c.XTVersion != "" && vx.TerminalID() != c.XTVersion {
		return fmt.Sprintf("terminalid reported=%q advertised=%q", vx.TerminalID(), c.XTVersion)
	}
	return ""
}

// ---------------------------------------------------------------------------
// queries: replies must update exactly the answer they report

type queryCase struct {
	// OnlyOne: the terminal answers only the OSC 10 ("fg") or only the OSC 11
	// ("bg") default-colour query
	OnlyOne string `json:"terminal_answers_only,omitempty"`
	Caps    uint32 `json:"caps_mask"`
	Query   string `json:"query"`
	Timing  string `json:"timing"` // in-time | late | never
	Keys    int    `json:"concurrent_keys"`
	// Stray: colour reports of the queried kind (with another colour) that
	// arrive before the query, when nobody is waiting for them
	Stray int `json:"reports_nobody_asked_for_before_the_query,omitempty"`
}

func runQuery(w *harness.W, r gen.R) {
	qc := queryCase{Caps: 0x1ffff &^ (1 << 3), Keys: r.Intn(30)}
	qc.Query = []string{"cursor", "cursor", "bg", "fg", "color", "clipboard"}[r.Intn(6)]
	qc.Timing = []string{"in-time", "early", "late", "never"}[r.Intn(4)]
	if qc.Query != "cursor" && qc.Query != "clipboard" && qc.Timing == "never" {
		qc.Timing = "in-time" // colour queries block by contract until answered
	}
	if (qc.Query == "bg" || qc.Query == "fg") && r.Intn(3) == 0 {
		qc.OnlyOne = qc.Query
	}
	if (qc.Query == "bg" || qc.Query == "fg" || qc.Query == "color") && r.Intn(2) == 0 {
		qc.Stray = r.Range(1, 3)
	}
	cj, _ := json.Marshal(qc)
	w.Begin(string(cj))
	defer w.End()
	caps := refterm.CapsFromMask(qc.Caps)
	sess, err := vxh.Start(80, 24, caps, vaxis.Options{}, func(t *refterm.Terminal, c *memcon.Console) {
		t.NoOSC10, t.NoOSC11 = qc.OnlyOne == "bg", qc.OnlyOne == "fg"
	})
	if err != nil {
		w.Inconclusive("start-failed")
		return
	}
	if _, ok := sess.Sync(); !ok {
		w.Inconclusive("startup-sync-timeout")
		return
	}
	wedged := false
	defer func() {
		verifhook.DisarmAll()
		sess.Con.With(func() { sess.Con.ReplyFilter = nil })
		if !wedged {
			sess.Close()
		}
	}()
	var wantRow, wantCol int
	sess.Con.With(func() {
		sess.Term.R, sess.Term.C = r.Intn(24), r.Intn(80)
		wantRow, wantCol = sess.Term.R, sess.Term.C
		sess.Term.Clipboard = fmt.Sprintf("clip-%d", r.Intn(1000))
		sess.Term.BgColor = uint32(r.Intn(1 << 24))
		sess.Term.FgColor = uint32(r.Intn(1 << 24))
	})
	if qc.Stray > 0 {
		rep := map[string]string{"fg": "\x1b]10;rgb:0101/0202/0303\x1b\\", "bg": "\x1b]11;rgb:0101/0202/0303\x07", "color": "\x1b]4;1;rgb:0101/0202/0303\x1b\\"}[qc.Query]
		sess.Con.Inject([]byte(strings.Repeat(rep, qc.Stray)))
		if _, ok := sess.Sync(); !ok {
			w.Inconclusive("stray-report-sync-timeout")
			return
		}
		w.Count("queries_after_a_report_nobody_asked_for", 1)
	}
	held := make(chan []byte, 8)
	switch qc.Timing {
	case "early":
		// the terminal has answered (and the answer is parsed) while the
		// caller is still inside its write of the query
		sess.Con.With(func() {
			sess.Con.PostWriteDelay = func(p []byte) time.Duration {
				for _, q := range []string{"\x1b[6n", "\x1b]10;?", "\x1b]11;?", "\x1b]4;", "\x1b]52;"} {
					if strings.Contains(string(p), q) {
						return 15 * time.Millisecond
					}
				}
				return 0
			}
		})
	case "never":
		sess.Con.With(func() { sess.Con.ReplyFilter = func(rep []byte) []byte { return nil } })
	case "late":
		if qc.Query == "cursor" {
			// the reply is being handled exactly when the caller gives up:
			// park the input goroutine between its check and its send
			release := make(chan struct{})
			verifhook.Arm("vaxis.cpr.beforeSend", func() { <-release })
			defer close(release)
			time.AfterFunc(120*time.Millisecond, func() {
				select {
				case release <- struct{}{}:
				default:
				}
			})
		} else {
			sess.Con.With(func() { sess.Con.ReplyFilter = func(rep []byte) []byte { held <- rep; return nil } })
		}
	}
	// concurrent user input
	var keys []byte
	for i := 0; i < qc.Keys; i++ {
		keys = append(keys, string(rune(0xE100+i))...)
	}
	sess.Con.Inject(keys)

	type result struct{ s string }
	done := make(chan result, 1)
	go func() {
		switch qc.Query {
		case "cursor":
			row, col := sess.Vx.CursorPosition()
			done <- result{fmt.Sprintf("%d,%d", row, col)}
		case "bg":
			done <- result{fmt.Sprintf("%v", sess.Vx.QueryBackground().Params())}
		case "fg":
			done <- result{fmt.Sprintf("%v", sess.Vx.QueryForeground().Params())}
		case "color":
			done <- result{fmt.Sprintf("%v", sess.Vx.QueryColor(vaxis.IndexColor(1)).Params())}
		case "clipboard":
			ctx, cancel := context.WithTimeout(context.Background(), 300*time.Millisecond)
			defer cancel()
			s, err := sess.Vx.ClipboardPop(ctx)
			done <- result{fmt.Sprintf("%q,%v", s, err != nil)}
		}
	}()
	if qc.Timing == "late" && qc.Query != "cursor" {
		select {
		case rep := <-held:
			time.Sleep(20 * time.Millisecond)
			sess.Con.With(func() { sess.Con.ReplyFilter = nil })
			sess.Con.Inject(rep)
		case <-time.After(5 * time.Second):
		}
	}
	var res result
	select {
	case res = <-done:
	case <-time.After(30 * time.Second):
		// the terminal answered (in time or late): is the caller still waiting
		// although the input loop is alive?
		wedged = true
		if qc.Timing != "never" {
			if _, alive := sess.Sync(); alive {
				dump := harness.AllStacks()
				for _, blk := range strings.Split(dump, "\n\n") {
					if strings.Contains(blk, "vaxis.(*Vaxis).Query") && strings.Contains(blk, "[chan receive") {
						w.ViolationStack("query:"+qc.Query+":answer-never-reaches-the-caller", fmt.Sprintf("the terminal answered the %s query (%s) and the input loop is alive, but the caller is still waiting after 30s", qc.Query, qc.Timing), qc, "caller blocked", "the reply becomes the answer", blk)
						return
					}
				}
			}
		}
		w.Inconclusive("query-did-not-return")
		return
	}
	var want []string
	rgb := func(v uint32) string { return fmt.Sprintf("[%d %d %d]", v>>16&255, v>>8&255, v&255) }
	switch qc.Query {
	case "cursor":
		want = []string{fmt.Sprintf("%d,%d", wantRow, wantCol)}
		if qc.Timing != "in-time" && qc.Timing != "early" {
			want = []string{"-1,-1"}
		} else if qc.Timing == "in-time" || res.s != "-1,-1" {
			want = append(want, "-1,-1") // the 50ms deadline may pass on a loaded machine
		} else {
			// early: the report was dispatched while the request was still
			// being written, it lies ready before the caller starts to
			// wait; ask twice more before believing in a stalled machine
			for try := 0; try < 2 && res.s == "-1,-1"; try++ {
				row, col := sess.Vx.CursorPosition()
				res.s = fmt.Sprintf("%d,%d", row, col)
			}
		}
	case "bg":
		want = []string{rgb(sess.Term.BgColor)}
	case "fg":
		want = []string{rgb(sess.Term.FgColor)}
	case "color":
		want = []string{rgb(refterm.DefaultPalette(1))}
	case "clipboard":
		want = []string{fmt.Sprintf("%q,false", sess.Term.Clipboard)}
		if qc.Timing == "never" {
			want = []string{`"",true`}
		}
	}
	okRes := false
	for _, x := range want {
		if x == res.s {
			okRes = true
		}
	}
	w.Case(string(cj))
	w.Count("queries", 1)
	w.Distinct("query_timing", qc.Query+"/"+qc.Timing)
	if !okRes {
		w.Violation("query:"+qc.Query+":"+qc.Timing, "query answer differs from what the terminal reported", qc, res.s, strings.Join(want, " or "))
		return
	}
	// the loop must still be alive and the concurrent keys delivered exactly once, in order
	evs, ok := sess.Sync()
	if !ok {
		wedged = true
		dump := harness.AllStacks()
		for _, blk := range strings.Split(dump, "\n\n") {
			if strings.Contains(blk, "vaxis.(*Vaxis).handleSequence") && strings.Contains(blk, "[chan send") {
				fn := harness.InnermostVaxisFrame(blk)
				w.ViolationStack("wedge:chan-send@"+fn+":"+qc.Query, fmt.Sprintf("after a %s reply to %s the input loop stopped consuming (goroutine parked in %s)", qc.Timing, qc.Query, fn), qc, "sentinel not delivered", "loop alive", blk)
				return
			}
		}
		w.Inconclusive("query-sync-timeout-without-corroboration")
		return
	}
	n := 0
	for _, ev := range evs {
		if k, isKey := ev.(vaxis.Key); isKey && k.Keycode >= 0xE100 && k.Keycode < 0xE100+rune(qc.Keys) {
			if k.Keycode != rune(0xE100+n) {
				w.Violation("query:concurrent-keys-order", "keys typed while a query was outstanding were reordered or lost", qc, fmt.Sprint(k.Keycode), fmt.Sprint(0xE100+n))
				return
			}
			n++
		}
	}
	if n != qc.Keys {
		w.Violation("query:concurrent-keys-lost", "keys typed while a query was outstanding were lost", qc, fmt.Sprint(n), fmt.Sprint(qc.Keys))
		return
	}
	// the request is over (answered or given up): keys whose encoding looks
	// like its reply (CSI 1;2 R = Shift+F3) are keys again
	if qc.Query == "cursor" {
		if qc.Timing == "late" {
			verifhook.DisarmAll()
		}
		sess.Con.With(func() { sess.Con.ReplyFilter = nil })
		sess.Con.Inject([]byte("a\x1b[1;2R\x1b[1;5Rz"))
		evs, ok := sess.Sync()
		if !ok {
			wedged = true
			w.Inconclusive("query-sync-timeout-without-corroboration")
			return
		}
		var got []string
		for _, ev := range evs {
			if k, isKey := ev.(vaxis.Key); isKey && k.Keycode < 0xE000 || isKey && k.Keycode > 0xF8FF {
				got = append(got, fmt.Sprintf("%d/%d", k.Keycode, k.Modifiers))
			}
		}
		wantKeys := []string{fmt.Sprintf("%d/%d", 'a', 0), fmt.Sprintf("%d/%d", vaxis.KeyF03, vaxis.ModShift), fmt.Sprintf("%d/%d", vaxis.KeyF03, vaxis.ModCtrl), fmt.Sprintf("%d/%d", 'z', 0)}
		w.Count("keys_after_finished_query", 1)
		if strings.Join(got, " ") != strings.Join(wantKeys, " ") {
			w.Violation("query:cursor:"+qc.Timing+":later-key-taken-for-reply", "after the cursor-position request was over, modified F3 keys (CSI 1;2 R, CSI 1;5 R) were not delivered as keys", qc, strings.Join(got, " "), strings.Join(wantKeys, " "))
			return
		}
	}
	w.Sample(qc)
}

func (c check) Run(w *harness.W, b harness.Batch) {
	var s spec
	json.Unmarshal(b.Spec, &s)
	r := gen.New(b.Seed)
	switch s.Kind {
	case "streams":
		wedges := 0
		for i := 0; i < s.N; i++ {
			sc := genStream(gen.New(r.Int63()))
			if key := runStream(w, sc, r); strings.HasPrefix(key, "wedge:") {
				// every wedge costs the sentinel deadline: enough evidence
				// after a few
				if wedges++; wedges >= 3 {
					w.Count("batches_cut_short_after_wedges", 1)
					return
				}
			}
		}
	case "queries":
		for i := 0; i < s.N; i++ {
			runQuery(w, gen.New(r.Int63()))
		}
	case "size-queries":
		for i := 0; i < s.N; i++ {
			if !runSizeQuery(w, gen.New(r.Int63())) {
				break
			}
		}
	}
}

// sizeCase: the terminal reports its size only when asked (CSI 14 t, CSI
// 18 t; no in-band reports). Every size change the application is told about
// (Resize) must be announced with the size the terminal reports, whether the
// report is parsed after the request has been written ("in-time") or while
// the caller is still inside that write ("early").
type sizeCase struct {
	Caps   uint32   `json:"caps_mask"`
	Timing string   `json:"timing"`
	Sizes  [][2]int `json:"sizes"`
}

func runSizeQuery(w *harness.W, r gen.R) bool {
	// text-area reports on, in-band resize off
	sc := sizeCase{Caps: (uint32(r.Int63()) & 0x1ffff) | 1<<7, Timing: []string{"in-time", "early"}[r.Intn(2)]}
	sc.Caps &^= 1 << 3
	for i, n := 0, r.Range(1, 4); i < n; i++ {
		sc.Sizes = append(sc.Sizes, [2]int{r.Range(10, 100), r.Range(3, 40)})
	}
	cj, _ := json.Marshal(sc)
	w.Begin(string(cj))
	defer w.End()
	linger := func(p []byte) time.Duration {
		if sc.Timing == "early" && (strings.Contains(string(p), "\x1b[14t") || strings.Contains(string(p), "\x1b[18t")) {
			return 15 * time.Millisecond
		}
		return 0
	}
	sess, err := vxh.Start(80, 24, refterm.CapsFromMask(sc.Caps), vaxis.Options{}, func(t *refterm.Terminal, c *memcon.Console) {
		t.CellW, t.CellH = 8, 16
		c.PostWriteDelay = linger
	})
	if err != nil {
		if strings.Contains(err.Error(), "deadline") {
			w.Violation("query:size:"+sc.Timing+":new-fails-although-the-terminal-answered", "New returned an error although the terminal answered the size request: "+err.Error(), sc, err.Error(), "a Vaxis with the reported size")
			return false
		}
		w.Inconclusive("start-failed")
		return true
	}
	defer sess.Close()
	if _, ok := sess.Sync(); !ok {
		w.Inconclusive("startup-sync-timeout")
		return true
	}
	w.Case("size|" + string(cj))
	cur := [2]int{80, 24}
	for i, sz := range sc.Sizes {
		if sz == cur {
			continue // not a change: nothing is announced
		}
		cur = sz
		sess.Con.SetSize(sz[0], sz[1])
		sess.Vx.Resize()
		announced := false
		deadline := time.After(10 * time.Second)
		again := time.NewTicker(400 * time.Millisecond)
	wait:
		for !announced {
			select {
			case <-again.C:
				// the request has a 100 ms deadline of its own, which a
				// loaded machine can miss: the application asks again
				sess.Vx.Resize()
			case ev := <-sess.Vx.Events():
				switch e := ev.(type) {
				case vaxis.Redraw:
					sess.Vx.Render()
				case vaxis.Resize:
					if e.Cols == sz[0] && e.Rows == sz[1] {
						announced = true
					} else {
						// an older size: ask again
						sess.Vx.Resize()
					}
				}
			case <-deadline:
				break wait
			}
		}
		again.Stop()
		w.Count("size_requests", 1)
		if !announced {
			w.Violation("query:size:"+sc.Timing+":new-size-never-announced", fmt.Sprintf("size change %d to %dx%d: the terminal answers the size request (%s), but no Resize event with that size arrived within 10 s of Resize()+Render()", i, sz[0], sz[1], sc.Timing), sc, "no Resize event", fmt.Sprintf("Resize{Cols:%d Rows:%d}", sz[0], sz[1]))
			return false
		}
	}
	w.Distinct("query_timing", "size/"+sc.Timing)
	return true
}

func (check) Finalize(tier string, m *harness.Merged) string {
	if m.Counts["tagged_events_expected"] == 0 || m.Counts["queries"] == 0 {
		return "a sub-workload observed nothing"
	}
	return ""
}

func (c check) Replay(w *harness.W, raw json.RawMessage) {
	var probe map[string]json.RawMessage
	json.Unmarshal(raw, &probe)
	if probe["segs"] != nil {
		var sc streamCase
		json.Unmarshal(raw, &sc)
		for i, s := range sc.Segs {
			b, _ := hex.DecodeString(s.Hex)
			fmt.Printf("seg %d %s %q\n", i, s.Kind, b)
		}
		runStream(w, sc, gen.New(1))
		return
	}
	fmt.Println("query cases are replayed by re-running their batch")
}
