// Package c01: rendered terminal equals the application's screen after every
// frame (DESIGN.md \u00a73 C01).
package c01

import (
	"encoding/json"
	"fmt"
	"os"
	"strings"

	"git.sr.ht/~rockorager/vaxis"

	"verif/internal/gen"
	"verif/internal/harness"
	"verif/internal/memcon"
	"verif/internal/refterm"
	"verif/internal/vxh"
	"verif/internal/widthtab"
)

type check struct{}

func init() { harness.Register(check{}) }

func (check) ID() string    { return "C01" }
func (check) Level() string { return "exploration" }
func (check) Rule() string {
	return "sessions = capability set x size x 3-12 frames of random SetCell/SetStyle/Fill/Clear/Print/cursor ops followed by Render, Refresh (terminal scrambled first) or a resize; plus the bounded-exhaustive (previous cell, next cell) pair matrix at each position of a 3-column row. A case is one compared frame; distinct = hash of (caps, size, frame ops); non-trivial = at least one cell or cursor change in the frame"
}
func (check) Assumptions() []string {
	return []string{
		"refterm (independent xterm-compatible model written from ctlseqs) is the standards-conforming terminal",
		"widths of curated graphemes are hand-stated in widthtab; generators draw only from that table",
		"wide clusters in the last column and explicit widths that are wrong for the terminal are not generated (no terminal can show them)",
	}
}

type spec struct {
	Kind  string `json:"kind"` // sessions | pairs
	N     int    `json:"n"`
	CapIx int    `json:"cap_ix"`
}

// representative capability sets for the pair matrix
var pairCaps = []uint32{
	0,
	0x1ffff,
	1<<9 | 1<<10,        // rgb + smulx
	1<<0 | 1<<1 | 1<<12, // sync + unicode + xtversion
}

func (check) Plan(tier string, seed int64) []harness.Batch {
	var bs []harness.Batch
	nb, per := 16, 190
	pairSets := 1
	if tier == "thorough" {
		nb, per = 64, 4700
		pairSets = 4
	}
	for i := 0; i < nb; i++ {
		s, _ := json.Marshal(spec{Kind: "sessions", N: per})
		b := harness.Batch{Name: fmt.Sprintf("sessions-%d", i), Seed: seed*1000003 + int64(i), Spec: s, TimeoutS: 1500}
		if i%8 == 5 {
			// extended colours written with semicolons
			b.Name = fmt.Sprintf("sessions-legacy-sgr-%d", i)
			b.Env = []string{"VAXIS_FORCE_LEGACY_SGR=1"}
		}
		bs = append(bs, b)
	}
	for i := 0; i < pairSets; i++ {
		for part := 0; part < 4; part++ {
			s, _ := json.Marshal(spec{Kind: "pairs", CapIx: i, N: part})
			bs = append(bs, harness.Batch{Name: fmt.Sprintf("pairs-cap%d-part%d", i, part), Seed: seed, Spec: s, TimeoutS: 1500})
		}
	}
	return bs
}

func (c check) Run(w *harness.W, b harness.Batch) {
	var s spec
	json.Unmarshal(b.Spec, &s)
	switch s.Kind {
	case "sessions":
		r := gen.New(b.Seed)
		for i := 0; i < s.N; i++ {
			runSession(w, gen.New(r.Int63()), nil)
		}
	case "pairs":
		runPairs(w, pairCaps[s.CapIx], s.N)
	}
}

func (check) Finalize(tier string, m *harness.Merged) string {
	if m.Counts["frames_compared"] == 0 || m.Counts["cells_compared"] == 0 {
		return "no frame was compared"
	}
	return ""
}

// ---------------------------------------------------------------------------

type op struct {
	Op    string        `json:"op"`
	Col   int           `json:"col,omitempty"`
	Row   int           `json:"row,omitempty"`
	Cell  *vxh.AppCell  `json:"cell,omitempty"`
	Style *vxh.AppStyle `json:"style,omitempty"`
	Text  []string      `json:"text,omitempty"`
	W     int           `json:"w,omitempty"`
	Shape int           `json:"shape,omitempty"`
	// Nest: the cursor is requested through windows nested at these offsets
	// (each relative to its parent); Col/Row stay screen coordinates
	Nest [][2]int `json:"nest,omitempty"`
}

type frame struct {
	Ops     []op   `json:"ops"`
	End     string `json:"end"` // render | refresh | resize
	NewCols int    `json:"new_cols,omitempty"`
	NewRows int    `json:"new_rows,omitempty"`
	After   []op   `json:"after,omitempty"` // the application's redraw after a resize
}

type sessionCase struct {
	Caps        uint32  `json:"caps_mask"`
	Cols        int     `json:"cols"`
	Rows        int     `json:"rows"`
	PriorCursor [2]int  `json:"prior_cursor"`
	Frames      []frame `json:"frames"`
	Seed        int64   `json:"seed"`
}

func randCaps(r gen.R) uint32 {
	switch r.Intn(6) {
	case 0:
		return 0
	case 1:
		return 0x1ffff
	case 2:
		return pairCaps[r.Intn(len(pairCaps))]
	default:
		return uint32(r.Int63()) & 0x1ffff
	}
}

func randSize(r gen.R) (int, int) {
	switch r.Intn(12) {
	case 0:
		return 1, 1
	case 1:
		return r.Range(1, 3), r.Range(1, 2)
	case 2:
		return r.Range(20, 200), r.Range(5, 60)
	default:
		return r.Range(2, 12), r.Range(1, 6)
	}
}

type state struct {
	w      *harness.W
	sess   *vxh.Session
	vx     *vaxis.Vaxis
	shadow *vxh.Shadow
	cur    struct {
		visible  bool
		col, row int
		shape    int
	}
	method     widthtab.Method
	rgb, smulx bool
	flushViol  string
}

func scramble(t *refterm.Terminal, r gen.R) {
	for row := 0; row < t.Rows; row++ {
		for col := 0; col < t.Cols; col++ {
			if r.Intn(4) == 0 {
				continue
			}
			st := refterm.Style{Fg: r.Color(), Bg: r.Color(), Attr: uint8(r.Intn(128)), UlStyle: uint8(r.Intn(6))}
			if col+1 < t.Cols && r.Intn(4) == 0 {
				t.SetCellRaw(row, col, refterm.Cell{G: "\u4e16", W: 2, Style: st})
				t.SetCellRaw(row, col+1, refterm.Cell{Cont: true, Style: st})
				col++
				continue
			}
			t.SetCellRaw(row, col, refterm.Cell{G: string(rune('!' + r.Intn(90))), W: 1, Style: st})
		}
	}
	t.R, t.C, t.PW = r.Intn(t.Rows), r.Intn(t.Cols), false
}

func genFrame(r gen.R, cols, rows int, m widthtab.Method, allowResize bool) frame {
	var f frame
	if r.Intn(5) == 0 {
		// a frame in which nothing but the cursor moves, inside a small
		// corner so that consecutive frames often share a row or a column
		// (and the new column often equals the old row)
		c, rw := 3, 2
		if cols < c {
			c = cols
		}
		if rows < rw {
			rw = rows
		}
		f.Ops = []op{{Op: "showcursor", Col: r.Intn(c), Row: r.Intn(rw)}}
		f.End = "render"
		return f
	}
	nops := r.Intn(12)
	if r.Intn(4) == 0 {
		nops = r.Intn(41)
	}
	for i := 0; i < nops; i++ {
		switch k := r.Intn(20); {
		case k < 11:
			col, row := r.Intn(cols), r.Intn(rows)
			c, _ := r.Cell(cols-col, m, true)
			f.Ops = append(f.Ops, op{Op: "setcell", Col: col, Row: row, Cell: &c})
		case k < 13:
			col, row := r.Intn(cols), r.Intn(rows)
			st := r.Style()
			f.Ops = append(f.Ops, op{Op: "setstyle", Col: col, Row: row, Style: &st})
		case k < 14:
			c, _ := r.Cell(1, m, false)
			f.Ops = append(f.Ops, op{Op: "fill", Cell: &c})
		case k < 15:
			f.Ops = append(f.Ops, op{Op: "clear"})
		case k < 17:
			// print a short text into a one-row child window it fits in
			col, row := r.Intn(cols), r.Intn(rows)
			avail := cols - col
			var text []string
			used := 0
			n := r.Range(1, 6)
			for j := 0; j < n; j++ {
				class := []int{gen.GNarrow, gen.GNarrow, gen.GWide, gen.GCluster}[r.Intn(4)]
				g := r.Grapheme(class)
				w, _ := widthtab.Lookup(g, m)
				if w == 0 || used+w > avail-1 { // keep the last column free: no wrap
					continue
				}
				text = append(text, g)
				used += w
			}
			if len(text) == 0 {
				continue
			}
			st := r.Style()
			f.Ops = append(f.Ops, op{Op: "print", Col: col, Row: row, W: avail, Text: text, Style: &st})
		case k < 19:
			o := op{Op: "showcursor", Col: r.Intn(cols), Row: r.Intn(rows), Shape: r.Intn(7)}
			// half of the requests go through 1-3 nested windows
			for n, x, y := r.Intn(4), o.Col, o.Row; n > 0 && r.Intn(2) == 0; n-- {
				dx, dy := r.Intn(x+1), r.Intn(y+1)
				o.Nest = append(o.Nest, [2]int{dx, dy})
				x, y = x-dx, y-dy
			}
			f.Ops = append(f.Ops, o)
		default:
			f.Ops = append(f.Ops, op{Op: "hidecursor"})
		}
	}
	switch k := r.Intn(10); {
	case k < 7:
		f.End = "render"
	case k < 9 || !allowResize:
		f.End = "refresh"
	default:
		f.End = "resize"
		f.NewCols, f.NewRows = randSize(r)
		for f.NewCols == cols && f.NewRows == rows {
			f.NewCols, f.NewRows = randSize(r)
		}
		for k := 0; k < 4; k++ {
			col, row := r.Intn(f.NewCols), r.Intn(f.NewRows)
			c, _ := r.Cell(f.NewCols-col, m, true)
			f.After = append(f.After, op{Op: "setcell", Col: col, Row: row, Cell: &c})
		}
	}
	return f
}

func (st *state) apply(o op) {
	win := st.vx.Window()
	switch o.Op {
	case "setcell":
		win.SetCell(o.Col, o.Row, o.Cell.ToVaxis())
		st.shadow.Set(o.Col, o.Row, *o.Cell)
	case "setstyle":
		win.SetStyle(o.Col, o.Row, o.Style.ToVaxis())
		st.shadow.SetStyle(o.Col, o.Row, *o.Style)
	case "fill":
		win.Fill(o.Cell.ToVaxis())
		for r := 0; r < st.shadow.Rows; r++ {
			for c := 0; c < st.shadow.Cols; c++ {
				st.shadow.Set(c, r, *o.Cell)
			}
		}
	case "clear":
		win.Clear()
		for r := 0; r < st.shadow.Rows; r++ {
			for c := 0; c < st.shadow.Cols; c++ {
				st.shadow.Set(c, r, vxh.AppCell{G: " ", Width: 1})
			}
		}
	case "print":
		child := win.New(o.Col, o.Row, o.W, 1)
		child.Print(vaxis.Segment{Text: strings.Join(o.Text, ""), Style: o.Style.ToVaxis()})
		col := o.Col
		for _, g := range o.Text {
			w, _ := widthtab.Lookup(g, st.method)
			st.shadow.Set(col, o.Row, vxh.AppCell{G: g, Width: w, Style: *o.Style})
			col += w
		}
	case "showcursor":
		if len(o.Nest) > 0 {
			cw, x, y := win, o.Col, o.Row
			for _, d := range o.Nest {
				cw = cw.New(d[0], d[1], -1, -1)
				x, y = x-d[0], y-d[1]
			}
			cw.ShowCursor(x, y, vaxis.CursorStyle(o.Shape))
		} else {
			st.vx.ShowCursor(o.Col, o.Row, vaxis.CursorStyle(o.Shape))
		}
		st.cur.visible, st.cur.col, st.cur.row, st.cur.shape = true, o.Col, o.Row, o.Shape
	case "hidecursor":
		st.vx.HideCursor()
		st.cur.visible = false
	}
}

func methodOf(vx *vaxis.Vaxis) widthtab.Method {
	if vx.CanUnicodeCore() || vx.CanExplicitWidth() {
		return widthtab.Unicode
	}
	return widthtab.Wcwidth
}

// runSession executes one generated (or replayed) session.
func runSession(w *harness.W, r gen.R, replay *sessionCase) {
	var sc sessionCase
	if replay != nil {
		sc = *replay
	} else {
		sc.Caps = randCaps(r)
		sc.Cols, sc.Rows = randSize(r)
		sc.PriorCursor = [2]int{r.Intn(sc.Rows), r.Intn(sc.Cols)}
		sc.Seed = r.Int63()
	}
	caps := refterm.CapsFromMask(sc.Caps)
	st := &state{w: w}
	w.Begin(caseJSON(sc))
	var flushViol string
	sess, err := vxh.Start(sc.Cols, sc.Rows, caps, vaxis.Options{}, func(t *refterm.Terminal, c *memcon.Console) {
		t.R, t.C = sc.PriorCursor[0], sc.PriorCursor[1]
		c.OnWrite = func(p []byte) {
			// flush epilogue invariants at every write boundary
			if flushViol != "" {
				return
			}
			if harness.Verbose {
				fmt.Printf("  write: %s\n", refterm.Printable(p, 400))
			}
			if t.Pen != (refterm.Style{}) {
				flushViol = "pen not reset at end of write: " + t.Pen.String()
			} else if t.SyncDepth != 0 {
				flushViol = fmt.Sprintf("synchronized-update depth %d at end of write", t.SyncDepth)
			}
		}
	})
	if err != nil {
		w.Violation("new-failed", "vaxis.New failed: "+err.Error(), sc, err.Error(), "nil")
		return
	}
	st.sess = sess
	st.vx = sess.Vx
	if _, ok := sess.Sync(); !ok {
		// the input loop stopped consuming during start-up: that is C03/C10
		// territory (reply racing a query timeout); nothing to compare here
		w.Inconclusive("startup-sync-timeout")
		os.WriteFile(fmt.Sprintf("/tmp/c01-wedge-%d.txt", os.Getpid()), []byte(harness.AllStacks()), 0o644)
		return
	}
	defer func() {
		if !sess.Close() {
			w.Inconclusive("close-did-not-return")
		}
	}()
	st.method = methodOf(sess.Vx)
	st.rgb = caps.RGB
	st.smulx = caps.StyledUnderlines()
	st.shadow = vxh.NewShadow(sc.Cols, sc.Rows)
	st.cur.shape = 0

	fr := gen.New(sc.Seed)
	nframes := fr.Range(3, 12)
	if replay != nil {
		nframes = len(sc.Frames)
	}
	cols, rows := sc.Cols, sc.Rows
	for fi := 0; fi < nframes; fi++ {
		var f frame
		if replay != nil {
			f = sc.Frames[fi]
		} else {
			f = genFrame(fr, cols, rows, st.method, true)
			sc.Frames = append(sc.Frames, f)
		}
		w.Begin(caseJSON(sc))
		wedged := false
		syncEvs := ""
		val, stack, panicked := harness.Recover(func() {
			for _, o := range f.Ops {
				st.apply(o)
			}
			switch f.End {
			case "render":
				sess.Vx.Render()
			case "refresh":
				sess.Con.With(func() { scramble(sess.Term, gen.New(sc.Seed+int64(fi))) })
				sess.Vx.Refresh()
			case "resize":
				cols, rows = f.NewCols, f.NewRows
				sess.Con.SetSize(cols, rows)
				if caps.InBand {
					// wait until the in-band report has been processed
					evs, ok := sess.Sync()
					syncEvs = fmt.Sprintf("%#v", evs)
					if !ok {
						w.Inconclusive("inband-resize-report-not-processed")
						os.WriteFile(fmt.Sprintf("/tmp/c01-wedge-%d.txt", os.Getpid()), []byte(harness.AllStacks()), 0o644)
						wedged = true
						return
					}
				} else {
					sess.Vx.Resize()
				}
				sess.Vx.Render() // takes the resize path, posts Resize
				sess.DrainEvents()
				sess.Con.With(func() { scramble(sess.Term, gen.New(sc.Seed+int64(fi))) })
				st.shadow = vxh.NewShadow(cols, rows)
				// the application redraws: a few cells
				win := sess.Vx.Window()
				ww, wh := win.Size()
				if ww != cols || wh != rows {
					dbg := ""
					sess.Con.With(func() {
						dbg = fmt.Sprintf(" mode2048=%v logcounts=%v syncevs=%s", sess.Term.Modes[2048], sess.Term.LogCounts, syncEvs)
					})
					w.Violation("resize:window-size", "window size after resize differs from terminal size", sc, fmt.Sprintf("%dx%d", ww, wh)+dbg, fmt.Sprintf("%dx%d", cols, rows))
				}
				for _, o := range f.After {
					st.apply(o)
				}
				if st.cur.visible && (st.cur.col >= cols || st.cur.row >= rows) {
					st.apply(op{Op: "hidecursor"})
				}
				sess.Vx.Render()
			}
		})
		if panicked {
			w.ViolationStack("panic:"+harness.PanicKey(val, stack), "panic during frame: "+val, sc, val, "no panic", stack)
			return
		}
		w.End()
		if wedged {
			return
		}
		st.compare(sc, fi, f)
		if flushViol != "" {
			w.Violation("flush-epilogue:"+strings.SplitN(flushViol, ":", 2)[0], flushViol, sc, flushViol, "pen reset, sync balanced at every write boundary")
			flushViol = ""
		}
	}
	w.Sample(sc)
}

func caseJSON(v any) string {
	b, _ := json.Marshal(v)
	return string(b)
}

func (st *state) compare(sc sessionCase, fi int, f frame) {
	w := st.w
	var mm []vxh.Mismatch
	var cursorBad string
	cells := 0
	st.sess.Con.With(func() {
		t := st.sess.Term
		mm = vxh.Compare(st.shadow, t, st.method, st.rgb, st.smulx, 4)
		cells = t.Rows * t.Cols
		if !t.AltActive {
			cursorBad = "alternate screen not active during session"
		}
		if st.cur.visible {
			switch {
			case !t.CursorVisible:
				cursorBad = "cursor requested visible but hidden"
			case t.R != st.cur.row || t.C != st.cur.col:
				cursorBad = fmt.Sprintf("cursor at (%d,%d), requested (%d,%d)", t.R, t.C, st.cur.row, st.cur.col)
			case t.CursorShape != st.cur.shape:
				cursorBad = fmt.Sprintf("cursor shape %d, requested %d", t.CursorShape, st.cur.shape)
			}
		} else if t.CursorVisible {
			cursorBad = "cursor requested hidden but visible"
		}
		if t.Pen.Link != "" {
			cursorBad = "hyperlink left open after frame"
		}
	})
	if harness.Verbose && len(mm) > 0 {
		st.sess.Con.With(func() { fmt.Print(st.sess.Term.Dump()) })
	}
	w.Count("frames_compared", 1)
	w.Count("cells_compared", int64(cells))
	w.Count("frames_"+f.End, 1)
	if len(f.Ops) > 0 {
		w.Case(fmt.Sprintf("%d|%dx%d|%d|%s", sc.Caps, sc.Cols, sc.Rows, fi, caseJSON(sc.Frames[:fi+1])))
	} else {
		w.Eval(1)
	}
	w.Distinct("caps_masks", fmt.Sprint(sc.Caps))
	for _, m := range mm {
		key := "render:" + m.Kind
		if m.Kind == "poison" {
			key += ":" + m.Detail
		}
		if m.Kind == "style" {
			key += ":" + strings.SplitN(m.Detail, " ", 2)[0]
		}
		w.Violation(key, fmt.Sprintf("frame %d (%s): %s", fi, f.End, m.String()), sc, m.String(), "terminal cell equals application cell")
	}
	if cursorBad != "" {
		w.Violation("cursor:"+strings.SplitN(cursorBad, " ", 3)[1], fmt.Sprintf("frame %d (%s): %s", fi, f.End, cursorBad), sc, cursorBad, "cursor as requested")
	}
}

// ---------------------------------------------------------------------------
// pair matrix

func repCells() []vxh.AppCell {
	red := refterm.Color{K: refterm.ColIndexed, V: 1}
	brt := refterm.Color{K: refterm.ColIndexed, V: 12}
	idx := refterm.Color{K: refterm.ColIndexed, V: 200}
	rgb := refterm.Color{K: refterm.ColRGB, V: 0x123456}
	rgb2 := refterm.Color{K: refterm.ColRGB, V: 0xfe0180}
	styles := []vxh.AppStyle{
		{},
		{Fg: red},
		{Bg: brt},
		{Fg: idx, Bg: rgb},
		{Fg: rgb2, Attr: refterm.ABold},
		{Attr: refterm.ADim},
		{Attr: refterm.ABold | refterm.ADim},
		{Attr: refterm.AItalic | refterm.AReverse | refterm.AStrike},
		{Attr: 0x7f},
		{UlStyle: 1},
		{UlStyle: 3, Ul: red},
		{UlStyle: 5, Ul: rgb},
		{Link: "https://a.example/x"},
		{Link: "https://a.example/x", LinkParams: "id=7"},
		{Link: "https://b.example/y", Fg: red},
	}
	var out []vxh.AppCell
	out = append(out, vxh.AppCell{})                 // zero
	out = append(out, vxh.AppCell{G: " ", Width: 1}) // cleared
	out = append(out, vxh.AppCell{G: "\u0301"})      // lone zero-width
	for i, s := range styles {
		out = append(out, vxh.AppCell{G: string(rune('a' + i)), Style: s})
	}
	for _, s := range styles[:6] {
		out = append(out, vxh.AppCell{G: "\u4f60", Style: s})
	}
	out = append(out, vxh.AppCell{G: "\u4f60", Width: 2, Style: styles[3]})
	out = append(out, vxh.AppCell{G: "e\u0301", Style: styles[1]})
	out = append(out, vxh.AppCell{G: "\u2600\ufe0f", Style: styles[2]})
	out = append(out, vxh.AppCell{G: "\U0001F600", Style: styles[10]})
	out = append(out, vxh.AppCell{G: " ", Style: styles[2]})
	out = append(out, vxh.AppCell{G: "", Style: styles[8]})
	for len(out) < 40 {
		out = append(out, vxh.AppCell{G: "Q", Style: styles[len(out)%len(styles)]})
	}
	return out
}

type pairCase struct {
	Caps  uint32      `json:"caps_mask"`
	Pos   int         `json:"pos"`
	Prev  vxh.AppCell `json:"prev"`
	Next  vxh.AppCell `json:"next"`
	Neigh bool        `json:"neighbour_changes"`
}

func runPairs(w *harness.W, capMask uint32, part int) {
	caps := refterm.CapsFromMask(capMask)
	reps := repCells()
	const cols, rows = 3, 1
	sess, err := vxh.Start(cols, rows, caps, vaxis.Options{}, nil)
	if err != nil {
		w.Violation("new-failed", "vaxis.New failed", capMask, err.Error(), "nil")
		return
	}
	if _, ok := sess.Sync(); !ok {
		w.Inconclusive("startup-sync-timeout")
		return
	}
	defer sess.Close()
	m := methodOf(sess.Vx)
	neighA := vxh.AppCell{G: "n", Style: vxh.AppStyle{Fg: refterm.Color{K: refterm.ColIndexed, V: 3}}}
	neighB := vxh.AppCell{G: "m", Style: vxh.AppStyle{Attr: refterm.AItalic}}
	win := sess.Vx.Window()
	n := 0
	for pi, prev := range reps {
		if pi%4 != part {
			continue
		}
		for _, next := range reps {
			for pos := 0; pos < cols; pos++ {
				pw, _ := vxh.EffWidth(prev, m)
				nw, _ := vxh.EffWidth(next, m)
				if pos+pw > cols || pos+nw > cols {
					continue
				}
				for _, neigh := range []bool{false, true} {
					pc := pairCase{capMask, pos, prev, next, neigh}
					w.Begin(caseJSON(pc))
					sh := vxh.NewShadow(cols, rows)
					// frame 0: baseline row of neighbours, full refresh
					for c := 0; c < cols; c++ {
						win.SetCell(c, 0, neighA.ToVaxis())
						sh.Set(c, 0, neighA)
					}
					win.SetCell(pos, 0, prev.ToVaxis())
					sh.Set(pos, 0, prev)
					sess.Vx.Refresh()
					bad := diff(sess, sh, m, caps)
					if bad == "" {
						// frame 1: the transition under test, ordinary render
						win.SetCell(pos, 0, next.ToVaxis())
						sh.Set(pos, 0, next)
						if neigh {
							for c := 0; c < cols; c++ {
								if c != pos {
									win.SetCell(c, 0, neighB.ToVaxis())
									sh.Set(c, 0, neighB)
								}
							}
						}
						sess.Vx.Render()
						bad = diff(sess, sh, m, caps)
					}
					w.End()
					n++
					w.Count("frames_compared", 2)
					w.Count("cells_compared", 2*cols)
					w.Case("pair|" + caseJSON(pc))
					if bad != "" {
						key := "pair:" + strings.SplitN(bad, ":", 2)[0]
						w.Violation(key, "pair matrix: "+bad, pc, bad, "terminal equals shadow after the transition")
					}
				}
			}
		}
	}
	w.Count("pair_cases", int64(n))
	w.Count("exhaustive_spaces", 1)
	w.Distinct("pair_caps", fmt.Sprint(capMask))
}

func diff(sess *vxh.Session, sh *vxh.Shadow, m widthtab.Method, caps refterm.Caps) string {
	var mm []vxh.Mismatch
	sess.Con.With(func() {
		mm = vxh.Compare(sh, sess.Term, m, caps.RGB, caps.StyledUnderlines(), 1)
	})
	if len(mm) == 0 {
		return ""
	}
	k := mm[0].Kind
	if k == "poison" {
		k += "/" + mm[0].Detail
	}
	return k + ": " + mm[0].String()
}

func (c check) Replay(w *harness.W, raw json.RawMessage) {
	var probe map[string]json.RawMessage
	json.Unmarshal(raw, &probe)
	if _, ok := probe["frames"]; ok {
		var sc sessionCase
		if err := json.Unmarshal(raw, &sc); err != nil {
			fmt.Println("bad case:", err)
			return
		}
		runSession(w, gen.New(0), &sc)
		return
	}
	fmt.Println("pair cases are replayed by re-running the pairs batch")
}

// ---------------------------------------------------------------------------
// exported for C12 (same frame generator and shadow bookkeeping)

// Frame and Op are the generated frame and operation types.
type (
	Frame = frame
	Op    = op
)

// GenFrame generates one frame for a cols x rows screen.
func GenFrame(r gen.R, cols, rows int, m widthtab.Method, allowResize bool) Frame {
	return genFrame(r, cols, rows, m, allowResize)
}

// Applier applies generated ops to a Vaxis and keeps the shadow record.
type Applier struct{ st state }

// NewApplier creates an applier for vx.
func NewApplier(vx *vaxis.Vaxis, sh *vxh.Shadow, m widthtab.Method) *Applier {
	a := &Applier{}
	a.st.vx = vx
	a.st.shadow = sh
	a.st.method = m
	return a
}

// Apply performs the op on the Vaxis and on the shadow.
func (a *Applier) Apply(o Op) { a.st.apply(o) }

// Shadow returns the current shadow.
func (a *Applier) Shadow() *vxh.Shadow { return a.st.shadow }

// SetShadow replaces the shadow (after a resize).
func (a *Applier) SetShadow(sh *vxh.Shadow) { a.st.shadow = sh }

// Cursor returns the last cursor request.
func (a *Applier) Cursor() (visible bool, col, row, shape int) {
	return a.st.cur.visible, a.st.cur.col, a.st.cur.row, a.st.cur.shape
}
