// Package c18: styled-text codecs round-trip and all SGR producers and
// consumers agree (DESIGN.md §3 C18).
package c18

import (
	"encoding/json"
	"fmt"
	"strings"

	"git.sr.ht/~rockorager/vaxis"
	"git.sr.ht/~rockorager/vaxis/widgets/term"

	"verif/internal/gen"
	"verif/internal/harness"
	"verif/internal/refterm"
	"verif/internal/vxh"
	"verif/internal/widthtab"
)

type check struct{}

func init() { harness.Register(check{}) }

func (check) ID() string    { return "C18" }
func (check) Level() string { return "exploration" }
func (check) Rule() string {
	return "all 128x128 ordered pairs of attribute masks (exhaustive) combined with a covering set of colour classes (default, 0-7, 8-15, 16-255, RGB for fg, bg, underline colour) and the 6x6 underline-style pairs; all 25 colour-class pairs per channel x random masks; random cell sequences of length 1-2000 (long ones cross the parser's 4096-byte buffer). Every sequence is encoded by each producer (renderer through a fake console with RGB+Smulx advertised, EncodeCells, StyledString.Encode) and decoded by each consumer (ParseStyledString, NewStyledString, the emulator's pen through the hook, and the reference terminal as referee); plus arbitrary SGR parameter lists (truncated extended colours, 0-8 sub-parameters, huge values) fed to every consumer. A case is one (cell sequence, producer) or one parameter list; distinct = hash of it"
}
func (check) Assumptions() []string {
	return []string{
		"width and hyperlink are not part of the statement and are not compared",
		"graphemes come from the non-merging curated alphabet",
		"only SGR sequences and text of the renderer's output are passed to the consumers (cursor positioning etc. is not SGR)",
	}
}

type spec struct {
	Kind string `json:"kind"`
	Part int    `json:"part"`
	Of   int    `json:"of"`
	N    int    `json:"n"`
}

func (check) Plan(tier string, seed int64) []harness.Batch {
	var bs []harness.Batch
	nseq, nfuzz := 400, 40000
	if tier == "thorough" {
		nseq, nfuzz = 3000, 600000
	}
	for p := 0; p < 16; p++ {
		s, _ := json.Marshal(spec{Kind: "masks", Part: p, Of: 16})
		bs = append(bs, harness.Batch{Name: fmt.Sprintf("masks-%d", p), Seed: seed + int64(p), Spec: s, TimeoutS: 3000, CaseTimeoutS: 120})
		s, _ = json.Marshal(spec{Kind: "sequences", N: nseq})
		sb := harness.Batch{Name: fmt.Sprintf("sequences-%d", p), Seed: seed*31 + int64(p), Spec: s, TimeoutS: 3000, CaseTimeoutS: 120}
		if p%4 == 3 {
			// the legacy-SGR quirk rewrites the renderer's colour sequences to the
			// semicolon form when a Vaxis starts: producers and consumers must
			// still agree, and the codecs must not depend on it
			sb.Name = fmt.Sprintf("sequences-legacy-sgr-%d", p)
			sb.Env = []string{"VAXIS_FORCE_LEGACY_SGR=1"}
		}
		bs = append(bs, sb)
		s, _ = json.Marshal(spec{Kind: "fuzz", N: nfuzz})
		bs = append(bs, harness.Batch{Name: fmt.Sprintf("fuzz-%d", p), Seed: seed*37 + int64(p), Spec: s, TimeoutS: 3000, CaseTimeoutS: 120})
	}
	return bs
}

type env struct {
	w    *harness.W
	sess *vxh.Session // renderer producer + NewStyledString consumer
}

func newEnv(w *harness.W) *env {
	sess, err := vxh.Start(120, 4, refterm.CapsFromMask(1<<9|1<<10|1<<1), vaxis.Options{}, nil)
	if err != nil {
		w.Inconclusive("start-failed")
		return nil
	}
	if _, ok := sess.Sync(); !ok {
		w.Inconclusive("startup-sync-timeout")
		return nil
	}
	sess.Con.KeepWrites = 0
	return &env{w: w, sess: sess}
}

// styleOf converts a vaxis style to the comparable subset.
type cmpStyle struct {
	Fg, Bg, Ul refterm.Color
	Attr       uint8
	UlStyle    uint8
}

func (s cmpStyle) String() string {
	return fmt.Sprintf("{fg=%s bg=%s ul=%s/%d attr=%07b}", s.Fg, s.Bg, s.Ul, s.UlStyle, s.Attr)
}

func fromApp(s vxh.AppStyle) cmpStyle { return cmpStyle{s.Fg, s.Bg, s.Ul, s.Attr, s.UlStyle} }

func fromVaxisColor(c vaxis.Color) refterm.Color {
	p := c.Params()
	switch len(p) {
	case 1:
		return refterm.Color{K: refterm.ColIndexed, V: uint32(p[0])}
	case 3:
		return refterm.Color{K: refterm.ColRGB, V: uint32(p[0])<<16 | uint32(p[1])<<8 | uint32(p[2])}
	}
	return refterm.Color{}
}

func fromVaxis(s vaxis.Style) cmpStyle {
	return cmpStyle{fromVaxisColor(s.Foreground), fromVaxisColor(s.Background), fromVaxisColor(s.UnderlineColor), vxh.FromAttr(s.Attribute), uint8(s.UnderlineStyle)}
}

func fromRef(s refterm.Style) cmpStyle { return cmpStyle{s.Fg, s.Bg, s.Ul, s.Attr, s.UlStyle} }

type seqCase struct {
	Cells    []vxh.AppCell `json:"cells"`
	Producer string        `json:"producer,omitempty"`
	Consumer string        `json:"consumer,omitempty"`
}

// sgrAndText keeps only SGR sequences and printable text of renderer output.
func sgrAndText(b []byte) string {
	var out strings.Builder
	i := 0
	for i < len(b) {
		c := b[i]
		switch {
		case c == 0x1b && i+1 < len(b) && b[i+1] == '[':
			j := i + 2
			for j < len(b) && !(b[j] >= 0x40 && b[j] <= 0x7e) {
				j++
			}
			if j < len(b) && b[j] == 'm' {
				out.Write(b[i : j+1])
			}
			i = j + 1
		case c == 0x1b && i+1 < len(b) && (b[i+1] == ']' || b[i+1] == 'P' || b[i+1] == '_'):
			j := i + 2
			for j < len(b) && b[j] != 0x07 && !(b[j] == 0x1b && j+1 < len(b) && b[j+1] == '\\') {
				j++
			}
			if j < len(b) && b[j] == 0x1b {
				j++
			}
			i = j + 1
		case c == 0x1b:
			i += 2
		case c < 0x20:
			i++
		default:
			out.WriteByte(c)
			i++
		}
	}
	return out.String()
}

type decoded struct {
	g  string
	st cmpStyle
}

func (e *env) produce(producer string, cells []vxh.AppCell) (string, bool) {
	var vc []vaxis.Cell
	for _, c := range cells {
		vc = append(vc, c.ToVaxis())
	}
	switch producer {
	case "EncodeCells":
		return vaxis.EncodeCells(vc), true
	case "StyledString.Encode":
		ss := &vaxis.StyledString{Cells: vc}
		return ss.Encode(), true
	case "EncodeCells+EncodeCells":
		// two encoded strings one after the other (styled lines of a log or
		// pager): the reset that ends the first is followed by more text
		if len(vc) < 2 {
			return "", false
		}
		h := (len(vc) + 1) / 2
		return vaxis.EncodeCells(vc[:h]) + vaxis.EncodeCells(vc[h:]), true
	case "renderer":
		// one row of the screen; cells beyond the width are not rendered
		total := 0
		for _, c := range cells {
			w, _ := vxh.EffWidth(c, widthtab.Unicode)
			total += w
		}
		if total > 118 {
			return "", false
		}
		win := e.sess.Vx.Window()
		win.Clear()
		e.sess.Vx.Refresh()
		var buf []byte
		e.sess.Con.With(func() {
			e.sess.Con.OnWrite = func(p []byte) { buf = append(buf, p...) }
		})
		col := 0
		for _, c := range cells {
			win.SetCell(col, 1, c.ToVaxis())
			w, _ := vxh.EffWidth(c, widthtab.Unicode)
			col += w
		}
		e.sess.Vx.Render()
		e.sess.Con.With(func() { e.sess.Con.OnWrite = nil })
		return sgrAndText(buf), true
	}
	return "", false
}

func (e *env) consume(consumer, s string, cols int) ([]decoded, string, string) {
	var out []decoded
	val, stack, panicked := harness.Recover(func() {
		switch consumer {
		case "ParseStyledString":
			for _, c := range vaxis.ParseStyledString(s) {
				out = append(out, decoded{c.Grapheme, fromVaxis(c.Style)})
			}
		case "NewStyledString":
			ss := e.sess.Vx.NewStyledString(s, vaxis.Style{})
			for _, c := range ss.Cells {
				out = append(out, decoded{c.Grapheme, fromVaxis(c.Style)})
			}
		case "emulator":
			m, err := term.VerifNew(cols, 2)
			if err != nil {
				return
			}
			defer term.VerifFree(m)
			term.VerifFeed(m, []byte(s), nil)
			snap := term.VerifSnapshot(m, true)
			for r := 0; r < snap.Rows; r++ {
				for c := 0; c < snap.Cols; c++ {
					cl := snap.Cells[r][c]
					if cl.Grapheme == "" {
						continue
					}
					out = append(out, decoded{cl.Grapheme, fromVaxis(cl.Style)})
					if cl.Width > 1 {
						c += cl.Width - 1
					}
				}
			}
			// the pen at the end of the string
			out = append(out, decoded{"<pen>", fromVaxis(snap.Pen)})
		case "refterm":
			t := refterm.New(cols, 2, refterm.Caps{Unicode: true, RGB: true, Smulx: true})
			t.Modes[2027] = true
			t.Write([]byte(s))
			for r := 0; r < t.Rows; r++ {
				for c := 0; c < t.Cols; c++ {
					cl := t.Cell(r, c)
					if cl.G == "" || cl.Cont {
						continue
					}
					out = append(out, decoded{cl.G, fromRef(cl.Style)})
				}
			}
			out = append(out, decoded{"<pen>", fromRef(t.Pen)})
		}
	})
	if panicked {
		return nil, val, stack
	}
	return out, "", ""
}

var producers = []string{"EncodeCells", "StyledString.Encode", "renderer", "EncodeCells+EncodeCells"}
var consumers = []string{"ParseStyledString", "NewStyledString", "emulator", "refterm"}

func classOf(c refterm.Color) string {
	switch {
	case c.K == refterm.ColDefault:
		return "default"
	case c.K == refterm.ColRGB:
		return "rgb"
	case c.V < 8:
		return "0-7"
	case c.V < 16:
		return "8-15"
	}
	return "16-255"
}

// checkSeq runs one cell sequence through every producer x consumer.
func (e *env) checkSeq(cells []vxh.AppCell, sample bool) {
	w := e.w
	for _, p := range producers {
		sc := seqCase{Cells: cells, Producer: p}
		if len(cells) > 40 {
			sc.Cells = cells[:40]
		}
		cj, _ := json.Marshal(sc)
		w.Begin(string(cj))
		enc, ok := e.produce(p, cells)
		if !ok {
			w.End()
			continue
		}
		w.Case(fmt.Sprintf("%s|%x", p, hashCells(cells)))
		w.Count("sequences_"+p, 1)
		for _, c := range consumers {
			got, pval, pstack := e.consume(c, enc, 2*len(cells)+10)
			w.Count("decodes", 1)
			if pval != "" {
				w.ViolationStack("panic:"+harness.PanicKey(pval, pstack), fmt.Sprintf("%s panicked on %s output: %s", c, p, pval), sc, pval, "no panic", pstack)
				continue
			}
			// the pen at the end must be reset (consumers that expose it)
			if n := len(got); n > 0 && got[n-1].g == "<pen>" {
				if got[n-1].st != (cmpStyle{}) {
					w.Violation("end-state-not-reset:"+p+"->"+c, fmt.Sprintf("after the string produced by %s the pen of %s is %s", p, c, got[n-1].st), sc, got[n-1].st.String(), "default style")
				}
				got = got[:n-1]
			}
			// compare cell by cell (blank graphemes are not cells for every consumer)
			var want []decoded
			for _, cl := range cells {
				if cl.G == "" {
					continue
				}
				want = append(want, decoded{cl.G, fromApp(cl.Style)})
			}
			bad := ""
			key := ""
			if len(got) != len(want) {
				bad = fmt.Sprintf("%d graphemes decoded, %d encoded", len(got), len(want))
				key = "grapheme-count"
			} else {
				for i := range want {
					if got[i].g != want[i].g {
						bad = fmt.Sprintf("cell %d grapheme %q, encoded %q", i, got[i].g, want[i].g)
						key = "grapheme"
						break
					}
					if got[i].st != want[i].st {
						field := "attr"
						switch {
						case got[i].st.Fg != want[i].st.Fg:
							field = "fg:" + classOf(want[i].st.Fg)
						case got[i].st.Bg != want[i].st.Bg:
							field = "bg:" + classOf(want[i].st.Bg)
						case got[i].st.Ul != want[i].st.Ul:
							field = "ulcolor:" + classOf(want[i].st.Ul)
						case got[i].st.UlStyle != want[i].st.UlStyle:
							field = "ulstyle"
						}
						bad = fmt.Sprintf("cell %d (%q) decoded as %s, encoded as %s", i, want[i].g, got[i].st, want[i].st)
						key = field
						break
					}
				}
			}
			if bad != "" {
				w.Violation("mismatch:"+p+"->"+c+":"+key, fmt.Sprintf("%s output read by %s: %s", p, c, bad), sc, bad, "same graphemes and styles")
			}
		}
		w.End()
	}
	if sample {
		w.Sample(seqCase{Cells: cells})
	}
}

func hashCells(cells []vxh.AppCell) uint64 {
	var h uint64 = 1469598103934665603
	for _, c := range cells {
		s := fmt.Sprintf("%s|%v", c.G, c.Style)
		for i := 0; i < len(s); i++ {
			h ^= uint64(s[i])
			h *= 1099511628211
		}
	}
	return h
}

var colorReps = []refterm.Color{
	{}, {K: refterm.ColIndexed, V: 3}, {K: refterm.ColIndexed, V: 12}, {K: refterm.ColIndexed, V: 200}, {K: refterm.ColRGB, V: 0x0a80fe},
}

func (c check) Run(w *harness.W, b harness.Batch) {
	var s spec
	json.Unmarshal(b.Spec, &s)
	r := gen.New(b.Seed)
	e := newEnv(w)
	if e == nil {
		return
	}
	defer e.sess.Close()
	switch s.Kind {
	case "masks":
		// all 128x128 attribute-mask pairs: one sequence per "prev" mask with every "next"
		k := 0
		for prev := 0; prev < 128; prev++ {
			k++
			if k%s.Of != s.Part {
				continue
			}
			// covering colours: rotate classes with the mask
			var cells []vxh.AppCell
			for next := 0; next < 128; next++ {
				ci := (prev + next) % 5
				st1 := vxh.AppStyle{Attr: uint8(prev), Fg: colorReps[ci], Bg: colorReps[(ci+2)%5], Ul: colorReps[(ci+3)%5], UlStyle: uint8((prev + next) % 6)}
				st2 := vxh.AppStyle{Attr: uint8(next), Fg: colorReps[(ci+1)%5], Bg: colorReps[(ci+4)%5], Ul: colorReps[(ci+2)%5], UlStyle: uint8((prev*7 + next) % 6)}
				cells = append(cells, vxh.AppCell{G: "p", Style: st1}, vxh.AppCell{G: "n", Style: st2})
				if len(cells) >= 64 {
					e.checkSeq(cells, prev == 5 && next < 40)
					cells = nil
				}
			}
			if len(cells) > 0 {
				e.checkSeq(cells, false)
			}
			w.Count("mask_pairs", 128)
		}
		// all 25 colour-class pairs per channel x random masks, 6x6 underline styles
		if s.Part == 0 {
			for a := 0; a < 5; a++ {
				for bb := 0; bb < 5; bb++ {
					for ch := 0; ch < 3; ch++ {
						st1, st2 := vxh.AppStyle{Attr: uint8(r.Intn(128))}, vxh.AppStyle{Attr: uint8(r.Intn(128))}
						switch ch {
						case 0:
							st1.Fg, st2.Fg = colorReps[a], colorReps[bb]
						case 1:
							st1.Bg, st2.Bg = colorReps[a], colorReps[bb]
						default:
							st1.Ul, st2.Ul = colorReps[a], colorReps[bb]
							st1.UlStyle, st2.UlStyle = 1, 3
						}
						e.checkSeq([]vxh.AppCell{{G: "x", Style: st1}, {G: "y", Style: st2}, {G: "z"}}, false)
					}
				}
			}
			for a := 0; a < 6; a++ {
				for bb := 0; bb < 6; bb++ {
					e.checkSeq([]vxh.AppCell{{G: "x", Style: vxh.AppStyle{UlStyle: uint8(a)}}, {G: "y", Style: vxh.AppStyle{UlStyle: uint8(bb), Ul: colorReps[2]}}}, false)
				}
			}
		}
		w.Count("exhaustive_spaces", 1)
	case "sequences":
		for i := 0; i < s.N; i++ {
			n := r.Range(1, 60)
			if i%10 == 0 {
				n = r.Range(500, 2000)
			}
			cells := make([]vxh.AppCell, n)
			for j := range cells {
				e := widthtab.Table[r.Intn(len(widthtab.Table))]
				st := r.Style()
				st.Link, st.LinkParams = "", ""
				cells[j] = vxh.AppCell{G: e.G, Style: st}
				if r.Intn(3) == 0 && j > 0 {
					cells[j].Style = cells[j-1].Style
				}
			}
			e.checkSeq(cells, i == 1)
		}
	case "fuzz":
		fuzz(e, r, s.N)
	}
}

var fuzzAtoms = []string{"", "0", "1", "2", "4", "5", "9", "21", "22", "24", "38", "48", "58", "59", "39", "49", "90", "107", "255", "256", "65535", "2147483648", "99999999999999999999", "3", "7", "8"}

func fuzz(e *env, r gen.R, n int) {
	w := e.w
	for i := 0; i < n; i++ {
		var ps []string
		for k := r.Intn(8); k >= 0; k-- {
			p := fuzzAtoms[r.Intn(len(fuzzAtoms))]
			for q := r.Intn(9); q > 0 && r.Intn(3) == 0; q-- {
				p += ":" + fuzzAtoms[r.Intn(len(fuzzAtoms))]
			}
			ps = append(ps, p)
		}
		s := "a\x1b[" + strings.Join(ps, ";") + "mb"
		w.Begin(s)
		for _, c := range consumers[:3] {
			_, pval, pstack := e.consume(c, s, 20)
			if pval != "" {
				w.ViolationStack("panic:"+harness.PanicKey(pval, pstack), fmt.Sprintf("%s panicked on parameter list %q: %s", c, strings.Join(ps, ";"), pval), map[string]string{"sgr": s}, pval, "no panic", pstack)
			}
		}
		w.End()
		w.Case("fuzz|" + s)
		w.Count("fuzz_parameter_lists", 1)
		if i == 7 {
			w.Sample(map[string]string{"sgr_parameter_list": strings.Join(ps, ";")})
		}
	}
}

func (check) Finalize(tier string, m *harness.Merged) string {
	if m.Counts["mask_pairs"] < 128*128 || m.Counts["fuzz_parameter_lists"] == 0 || m.Counts["decodes"] == 0 {
		return fmt.Sprintf("coverage too small: mask_pairs=%d", m.Counts["mask_pairs"])
	}
	return ""
}
