// Package c17: line editors behave like an ideal grapheme line editor
// (DESIGN.md \u00a73 C17).
package c17

import (
	"encoding/json"
	"fmt"
	"strings"
	"unicode"

	"git.sr.ht/~rockorager/vaxis"
	"git.sr.ht/~rockorager/vaxis/vxfw"
	"git.sr.ht/~rockorager/vaxis/vxfw/textfield"
	"git.sr.ht/~rockorager/vaxis/widgets/textinput"

	"verif/internal/gen"
	"verif/internal/harness"
	"verif/internal/refterm"
	"verif/internal/vxh"
)

type check struct{}

func init() { harness.Register(check{}) }

func (check) ID() string    { return "C17" }
func (check) Level() string { return "exploration" }
func (check) Rule() string {
	return "bounded-exhaustive: all operation sequences of length <= 4 (quick) / <= 5 (thorough) over the widget's operations (insert of a narrow, a wide and a multi-codepoint grapheme, left, right, home, end, word-left, word-right, backspace, delete, kill-to-end, kill-to-start, kill-word, paste, Reset/SetContent, Enter) from 4 starting contents, plus random sequences of length 200, for vxfw TextField (driven through HandleEvent) and widgets/textinput (driven through Update); after every operation the widget's text and cursor index are compared with an ideal grapheme line editor, callbacks are logged, and the widget is drawn at every width 0..12 (TextField) / through a real Vaxis window (textinput, plain and with SetInvisibleChar) to compare the cursor column. A case is one history; distinct = hash of (widget, start, ops)"
}
func (check) Assumptions() []string {
	return []string{
		"graphemes come from a non-merging alphabet, so the ideal editor is unambiguous",
		"word operations (textinput) are judged leniently: direction, landing on an alphanumeric/non-alphanumeric boundary or an end, removed range contiguous and ending at the old cursor",
		"TextField's cursor index is read through the tag-guarded accessor VerifCursor",
	}
}

type spec struct {
	Kind   string `json:"kind"`
	Widget string `json:"widget"`
	Part   int    `json:"part"`
	Of     int    `json:"of"`
	Len    int    `json:"len"`
	N      int    `json:"n"`
}

func (check) Plan(tier string, seed int64) []harness.Batch {
	var bs []harness.Batch
	L, n := 4, 300
	if tier == "thorough" {
		L, n = 5, 4000
	}
	for _, wd := range []string{"textfield", "textinput"} {
		for p := 0; p < 8; p++ {
			s, _ := json.Marshal(spec{Kind: "exhaustive", Widget: wd, Part: p, Of: 8, Len: L})
			bs = append(bs, harness.Batch{Name: fmt.Sprintf("%s-exhaustive-%d", wd, p), Seed: seed, Spec: s, TimeoutS: 3000, CaseTimeoutS: 10})
			s, _ = json.Marshal(spec{Kind: "random", Widget: wd, N: n})
			bs = append(bs, harness.Batch{Name: fmt.Sprintf("%s-random-%d", wd, p), Seed: seed*59 + int64(p), Spec: s, TimeoutS: 3000, CaseTimeoutS: 10})
		}
	}
	return bs
}

// ---------------------------------------------------------------------------
// ideal editor

type model struct {
	g      []string
	cursor int
}

func (m *model) text() string { return strings.Join(m.g, "") }

func graphemes(s string) []string {
	var out []string
	for _, c := range vaxis.Characters(s) {
		out = append(out, c.Grapheme)
	}
	return out
}

func (m *model) insert(gs []string) {
	n := append([]string{}, m.g[:m.cursor]...)
	n = append(n, gs...)
	n = append(n, m.g[m.cursor:]...)
	m.g = n
	m.cursor += len(gs)
}

var ins = []string{"a", "\u4f60", "\U0001F469\u200d\U0001F680"}
var starts = []string{"", "ab", "a\u4f60 b", "\U0001F469\u200d\U0001F680x-y"}

type hcase struct {
	Widget string   `json:"widget"`
	Start  string   `json:"start"`
	Ops    []string `json:"ops"`
}

var tfOps = []string{"ins0", "ins1", "ins2", "left", "right", "home", "end", "backspace", "delete", "kill-to-end", "paste", "reset", "enter", "ctrl-f"}
var tiOps = []string{"ins0", "ins1", "ins2", "left", "right", "home", "end", "word-left", "word-right", "backspace", "delete", "kill-to-end", "kill-to-start", "kill-word", "paste", "setcontent"}

func key(code rune, mods vaxis.ModifierMask) vaxis.Key {
	return vaxis.Key{Keycode: code, Modifiers: mods}
}

func isAlnum(g string) bool {
	r := []rune(g)
	return len(r) == 1 && (unicode.IsLetter(r[0]) || unicode.IsNumber(r[0]))
}

// boundary: position p is an end of the text or lies between an alphanumeric
// and a non-alphanumeric grapheme.
func boundary(g []string, p int) bool {
	if p <= 0 || p >= len(g) {
		return true
	}
	return isAlnum(g[p-1]) != isAlnum(g[p])
}

// ---------------------------------------------------------------------------
// TextField

type tfState struct {
	tf      *textfield.TextField
	changes int
	submits []string
	lastChg string
}

func runTextField(w *harness.W, hc hcase, sample bool) {
	cj, _ := json.Marshal(hc)
	w.Begin(string(cj))
	defer w.End()
	w.Case(string(cj))
	w.Count("histories_textfield", 1)
	st := &tfState{tf: textfield.New()}
	st.tf.OnChange = func(s string) (vxfw.Command, error) { st.changes++; st.lastChg = s; return nil, nil }
	st.tf.OnSubmit = func(s string) (vxfw.Command, error) { st.submits = append(st.submits, s); return nil, nil }
	m := &model{}
	if hc.Start != "" {
		st.tf.InsertStringAtCursor(hc.Start)
		m.insert(graphemes(hc.Start))
	}
	for i, op := range hc.Ops {
		pre := m.text()
		chg0, sub0 := st.changes, len(st.submits)
		wantChange, wantSubmit := false, false
		var ev vaxis.Event
		alt := strings.HasSuffix(op, "~")
		op = strings.TrimSuffix(op, "~")
		pick := func(a, b vaxis.Key) vaxis.Event {
			if alt {
				return b
			}
			return a
		}
		switch op {
		case "ins0", "ins1", "ins2":
			g := ins[op[3]-'0']
			k := vaxis.Key{Keycode: []rune(g)[0], Text: g}
			if alt {
				// typed with Num Lock / Caps Lock on (a host speaking the
				// kitty protocol reports the lock states with every key)
				k.Modifiers = []vaxis.ModifierMask{vaxis.ModNumLock, vaxis.ModCapsLock, vaxis.ModNumLock | vaxis.ModCapsLock}[len(m.g)%3]
			}
			ev = k
			m.insert([]string{g})
		case "paste":
			// a paste holding a multi-codepoint grapheme (3 runes, one cluster)
			ev = vaxis.Key{Keycode: 'p', Text: "p" + ins[2] + "q", EventType: vaxis.EventPaste}
			m.insert([]string{"p", ins[2], "q"})
		case "left":
			ev = pick(key(vaxis.KeyLeft, 0), key('b', vaxis.ModCtrl))
			if m.cursor > 0 {
				m.cursor--
			}
		case "right":
			ev = key(vaxis.KeyRight, 0)
			if m.cursor < len(m.g) {
				m.cursor++
			}
		case "api-insert":
			st.tf.InsertStringAtCursor("z\u4f60")
			m.insert([]string{"z", "\u4f60"})
		case "api-cursor-to-2", "api-cursor-to-99":
			n := 2
			if op == "api-cursor-to-99" {
				n = 99
			}
			st.tf.CursorTo(uint(n))
			m.cursor = min(n, len(m.g))
		case "api-delete-right":
			st.tf.DeleteCharRightOfCursor()
			if m.cursor < len(m.g) {
				m.g = append(append([]string{}, m.g[:m.cursor]...), m.g[m.cursor+1:]...)
			}
		case "api-delete-left":
			st.tf.DeleteCharLeftOfCursor()
			if m.cursor > 0 {
				m.g = append(append([]string{}, m.g[:m.cursor-1]...), m.g[m.cursor:]...)
				m.cursor--
			}
		case "api-kill":
			st.tf.DeleteCursorToEndOfLine()
			m.g = append([]string{}, m.g[:m.cursor]...)
		case "ctrl-f":
			ev = key('f', vaxis.ModCtrl)
			if m.cursor < len(m.g) {
				m.cursor++
			}
		case "home":
			ev = pick(key(vaxis.KeyHome, 0), key('a', vaxis.ModCtrl))
			m.cursor = 0
		case "end":
			ev = pick(key(vaxis.KeyEnd, 0), key('e', vaxis.ModCtrl))
			m.cursor = len(m.g)
		case "backspace":
			ev = pick(key(vaxis.KeyBackspace, 0), key('h', vaxis.ModCtrl))
			if m.cursor > 0 {
				m.g = append(append([]string{}, m.g[:m.cursor-1]...), m.g[m.cursor:]...)
				m.cursor--
			}
		case "delete":
			ev = pick(key(vaxis.KeyDelete, 0), key('d', vaxis.ModCtrl))
			if m.cursor < len(m.g) {
				m.g = append(append([]string{}, m.g[:m.cursor]...), m.g[m.cursor+1:]...)
			}
		case "kill-to-end":
			ev = key('k', vaxis.ModCtrl)
			m.g = append([]string{}, m.g[:m.cursor]...)
		case "reset":
			st.tf.Reset()
			m.g, m.cursor = nil, 0
		case "enter":
			ev = key(vaxis.KeyEnter, 0)
			wantSubmit = true
		}
		val, stack, panicked := harness.Recover(func() {
			if ev != nil {
				st.tf.HandleEvent(ev, vxfw.TargetPhase)
			}
		})
		if panicked {
			w.ViolationStack("panic:"+harness.PanicKey(val, stack), fmt.Sprintf("TextField panicked at op %d (%s): %s", i, op, val), hc, val, "no panic", stack)
			return
		}
		if op == "enter" {
			if len(st.submits) != sub0+1 || st.submits[len(st.submits)-1] != pre {
				w.Violation("textfield:callback:submit", fmt.Sprintf("op %d Enter: OnSubmit calls %v, expected one call with %q", i, st.submits[sub0:], pre), hc, fmt.Sprint(st.submits[sub0:]), pre)
				return
			}
			m.g, m.cursor = nil, 0
		} else {
			wantChange = m.text() != pre && op != "reset" && !strings.HasPrefix(op, "api-")
			_ = wantSubmit
			if (st.changes-chg0 == 1) != wantChange || st.changes-chg0 > 1 {
				w.Violation("textfield:callback:change", fmt.Sprintf("op %d (%s): OnChange fired %d times, value changed: %v", i, op, st.changes-chg0, wantChange), hc, fmt.Sprint(st.changes-chg0), fmt.Sprint(wantChange))
				return
			}
			if len(st.submits) != sub0 {
				w.Violation("textfield:callback:spurious-submit", fmt.Sprintf("op %d (%s): OnSubmit fired without Enter", i, op), hc, "", "")
				return
			}
		}
		cur, _ := st.tf.VerifCursor()
		if st.tf.Value != m.text() {
			w.Violation("textfield:text@"+op, fmt.Sprintf("after op %d (%s) the field holds %q, the ideal editor %q", i, op, st.tf.Value, m.text()), hc, st.tf.Value, m.text())
			return
		}
		if int(cur) != m.cursor {
			w.Violation("textfield:cursor@"+op, fmt.Sprintf("after op %d (%s) the cursor index is %d (text %q), the ideal editor's %d", i, op, cur, st.tf.Value, m.cursor), hc, fmt.Sprint(cur), fmt.Sprint(m.cursor))
			return
		}
		w.Count("states_compared", 1)
		// drawn cursor column while the text fits
		before := 0
		total := 0
		for k, c := range vaxis.Characters(m.text()) {
			if k < m.cursor {
				before += c.Width
			}
			total += c.Width
		}
		for width := 0; width <= 12; width++ {
			var s vxfw.Surface
			val, stack, panicked := harness.Recover(func() {
				s, _ = st.tf.Draw(vxfw.DrawContext{Max: vxfw.Size{Width: uint16(width), Height: 1}, Characters: vaxis.Characters})
			})
			if panicked {
				w.ViolationStack("panic:"+harness.PanicKey(val, stack), fmt.Sprintf("TextField.Draw panicked at width %d: %s", width, val), hc, val, "no panic", stack)
				return
			}
			if width > 0 && total < width && s.Cursor != nil && int(s.Cursor.Col) != before {
				w.Violation("textfield:drawn-cursor-column", fmt.Sprintf("after op %d (%s) at width %d the drawn cursor column is %d, the text before the cursor is %d wide", i, op, width, s.Cursor.Col, before), hc, fmt.Sprint(s.Cursor.Col), fmt.Sprint(before))
				return
			}
		}
	}
	if sample {
		w.Sample(hc)
	}
}

// ---------------------------------------------------------------------------
// textinput

type tiEnv struct {
	sess *vxh.Session
}

func runTextInput(w *harness.W, e *tiEnv, hc hcase, sample bool) {
	cj, _ := json.Marshal(hc)
	w.Begin(string(cj))
	defer w.End()
	w.Case(string(cj))
	w.Count("histories_textinput", 1)
	ti := textinput.New()
	m := &model{}
	if hc.Start != "" {
		ti.SetContent(hc.Start)
		m.g = graphemes(hc.Start)
		m.cursor = len(m.g)
	}
	for i, op := range hc.Ops {
		old := append([]string{}, m.g...)
		oldCur := m.cursor
		lenient := ""
		var evs []vaxis.Event
		alt := strings.HasSuffix(op, "~")
		op = strings.TrimSuffix(op, "~")
		pick := func(a, b vaxis.Key) []vaxis.Event {
			if alt {
				return []vaxis.Event{b}
			}
			return []vaxis.Event{a}
		}
		switch op {
		case "ins0", "ins1", "ins2":
			g := ins[op[3]-'0']
			k := vaxis.Key{Keycode: []rune(g)[0], Text: g}
			if alt {
				k.Modifiers = []vaxis.ModifierMask{vaxis.ModNumLock, vaxis.ModCapsLock, vaxis.ModNumLock | vaxis.ModCapsLock}[len(m.g)%3]
			}
			evs = []vaxis.Event{k}
			m.insert([]string{g})
		case "paste":
			// pasted text arrives as one key event per cluster; one of them is a
			// multi-codepoint grapheme (3 runes)
			evs = []vaxis.Event{vaxis.PasteStartEvent{}, vaxis.Key{Keycode: 'p', Text: "p", EventType: vaxis.EventPaste}, vaxis.Key{Keycode: []rune(ins[2])[0], Text: ins[2], EventType: vaxis.EventPaste}, vaxis.Key{Keycode: 'q', Text: "q", EventType: vaxis.EventPaste}, vaxis.PasteEndEvent{}}
			m.insert([]string{"p", ins[2], "q"})
		case "left":
			evs = pick(key(vaxis.KeyLeft, 0), key('b', vaxis.ModCtrl))
			if m.cursor > 0 {
				m.cursor--
			}
		case "right":
			evs = pick(key(vaxis.KeyRight, 0), key('f', vaxis.ModCtrl))
			if m.cursor < len(m.g) {
				m.cursor++
			}
		case "home":
			evs = pick(key('a', vaxis.ModCtrl), key(vaxis.KeyHome, 0))
			m.cursor = 0
		case "end":
			evs = pick(key(vaxis.KeyEnd, 0), key('e', vaxis.ModCtrl))
			m.cursor = len(m.g)
		case "word-left":
			evs = pick(key('b', vaxis.ModAlt), key(vaxis.KeyLeft, vaxis.ModCtrl))
			lenient = "word-left"
		case "word-right":
			evs = pick(key(vaxis.KeyRight, vaxis.ModCtrl), key('f', vaxis.ModAlt))
			lenient = "word-right"
		case "backspace":
			evs = pick(key(vaxis.KeyBackspace, 0), key('h', vaxis.ModCtrl))
			if m.cursor > 0 {
				m.g = append(append([]string{}, m.g[:m.cursor-1]...), m.g[m.cursor:]...)
				m.cursor--
			}
		case "delete":
			evs = pick(key(vaxis.KeyDelete, 0), key('d', vaxis.ModCtrl))
			if m.cursor < len(m.g) {
				m.g = append(append([]string{}, m.g[:m.cursor]...), m.g[m.cursor+1:]...)
			}
		case "kill-to-end":
			evs = []vaxis.Event{key('k', vaxis.ModCtrl)}
			m.g = append([]string{}, m.g[:m.cursor]...)
		case "kill-to-start":
			evs = []vaxis.Event{key('u', vaxis.ModCtrl)}
			m.g = append([]string{}, m.g[m.cursor:]...)
			m.cursor = 0
		case "kill-word":
			evs = []vaxis.Event{key('w', vaxis.ModCtrl)}
			lenient = "kill-word"
		case "setcontent":
			ti.SetContent("xy")
			m.g, m.cursor = []string{"x", "y"}, 2
		}
		val, stack, panicked := harness.Recover(func() {
			for _, ev := range evs {
				ti.Update(ev)
			}
		})
		if panicked {
			w.ViolationStack("panic:"+harness.PanicKey(val, stack), fmt.Sprintf("textinput panicked at op %d (%s): %s", i, op, val), hc, val, "no panic", stack)
			return
		}
		got := graphemes(ti.String())
		cur := ti.CursorPosition()
		if cur < 0 || cur > len(got) {
			w.Violation("textinput:cursor-out-of-range@"+op, fmt.Sprintf("after op %d (%s) the cursor is %d with %d graphemes", i, op, cur, len(got)), hc, fmt.Sprint(cur), fmt.Sprintf("[0,%d]", len(got)))
			return
		}
		switch lenient {
		case "word-left", "word-right":
			if strings.Join(got, "\x00") != strings.Join(old, "\x00") {
				w.Violation("textinput:text@"+op, fmt.Sprintf("op %d (%s) changed the text from %q to %q", i, op, strings.Join(old, ""), ti.String()), hc, ti.String(), strings.Join(old, ""))
				return
			}
			okDir := cur <= oldCur
			if lenient == "word-right" {
				okDir = cur >= oldCur
			}
			// one word at a time: the nearest word start (going left) or the
			// nearest word end (going right)
			want := oldCur
			if lenient == "word-left" {
				for want > 0 && !isAlnum(old[want-1]) {
					want--
				}
				for want > 0 && isAlnum(old[want-1]) {
					want--
				}
			} else {
				for want < len(old) && !isAlnum(old[want]) {
					want++
				}
				for want < len(old) && isAlnum(old[want]) {
					want++
				}
			}
			if okDir && boundary(old, cur) && cur != want {
				w.Violation("textinput:word-motion:not-one-word@"+op, fmt.Sprintf("op %d (%s) moved the cursor from %d to %d in %q: one word in that direction ends at %d", i, op, oldCur, cur, strings.Join(old, ""), want), hc, fmt.Sprint(cur), fmt.Sprint(want))
				return
			}
			if !okDir || !boundary(old, cur) {
				w.Violation("textinput:word-motion@"+op, fmt.Sprintf("op %d (%s) moved the cursor from %d to %d in %q (not in the right direction or not to a word boundary)", i, op, oldCur, cur, strings.Join(old, "")), hc, fmt.Sprint(cur), "a boundary in the direction of the motion")
				return
			}
			m.cursor = cur
		case "kill-word":
			// old minus a contiguous range [cur, oldCur)
			want := append(append([]string{}, old[:min(cur, len(old))]...), old[oldCur:]...)
			if cur > oldCur || strings.Join(got, "\x00") != strings.Join(want, "\x00") || !boundary(old, cur) {
				w.Violation("textinput:kill-word", fmt.Sprintf("op %d kill-word on %q with cursor %d gave %q with cursor %d", i, strings.Join(old, ""), oldCur, ti.String(), cur), hc, ti.String(), "old text minus a contiguous range ending at the old cursor and starting at a word boundary")
				return
			}
			m.g, m.cursor = got, cur
		default:
			if ti.String() != m.text() {
				w.Violation("textinput:text@"+op, fmt.Sprintf("after op %d (%s) the input holds %q, the ideal editor %q", i, op, ti.String(), m.text()), hc, ti.String(), m.text())
				return
			}
			if cur != m.cursor {
				w.Violation("textinput:cursor@"+op, fmt.Sprintf("after op %d (%s) the cursor is %d, the ideal editor's %d (text %q)", i, op, cur, m.cursor, ti.String()), hc, fmt.Sprint(cur), fmt.Sprint(m.cursor))
				return
			}
		}
		w.Count("states_compared", 1)
	}
	// draw through a real window: cursor column while the text fits, and
	// narrow windows for termination (the case watchdog decides a hang)
	before, total := 0, 0
	for k, c := range vaxis.Characters(m.text()) {
		if k < m.cursor {
			before += c.Width
		}
		total += c.Width
	}
	ti.SetPrompt("> ")
	for _, width := range []int{0, 1, 2, 3, 4, 5, 6, 7, 9, 12, 40} {
		win := e.sess.Vx.Window().New(0, 0, width, 1)
		val, stack, panicked := harness.Recover(func() {
			e.sess.Vx.HideCursor()
			ti.Draw(win)
		})
		if panicked {
			w.ViolationStack("panic:"+harness.PanicKey(val, stack), fmt.Sprintf("textinput.Draw panicked at width %d: %s", width, val), hc, val, "no panic", stack)
			return
		}
		w.Count("textinput_draws", 1)
		if width == 40 && total+2+5 < width {
			e.sess.Vx.Render()
			var col int
			var vis bool
			e.sess.Con.With(func() { col, vis = e.sess.Term.C, e.sess.Term.CursorVisible })
			if !vis || col != 2+before {
				w.Violation("textinput:drawn-cursor-column", fmt.Sprintf("text %q cursor %d: drawn cursor visible=%v at column %d, expected %d (prompt 2 + text before the cursor)", m.text(), m.cursor, vis, col, 2+before), hc, fmt.Sprint(col), fmt.Sprint(2+before))
				return
			}
			// the same text as a password (one narrow substitute per
			// grapheme): the cursor column is still the width of the text
			// before the cursor (C17-q)
			val, stack, panicked = harness.Recover(func() {
				ti.SetInvisibleChar("*")
				e.sess.Vx.HideCursor()
				ti.Draw(win)
			})
			if panicked {
				w.ViolationStack("panic:"+harness.PanicKey(val, stack), fmt.Sprintf("textinput.Draw (password) panicked at width %d: %s", width, val), hc, val, "no panic", stack)
				return
			}
			w.Count("textinput_password_draws", 1)
			e.sess.Vx.Render()
			e.sess.Con.With(func() { col, vis = e.sess.Term.C, e.sess.Term.CursorVisible })
			if !vis || col != 2+before {
				w.Violation("textinput:drawn-cursor-column:password", fmt.Sprintf("text %q cursor %d shown as a password: drawn cursor visible=%v at column %d, expected %d (prompt 2 + width of the text before the cursor)", m.text(), m.cursor, vis, col, 2+before), hc, fmt.Sprint(col), fmt.Sprint(2+before))
				return
			}
		}
	}
	if sample {
		w.Sample(hc)
	}
}

func min(a, b int) int {
	if a < b {
		return a
	}
	return b
}

func (c check) Run(w *harness.W, b harness.Batch) {
	var s spec
	json.Unmarshal(b.Spec, &s)
	r := gen.New(b.Seed)
	ops := tfOps
	if s.Widget == "textinput" {
		ops = tiOps
	}
	var env *tiEnv
	if s.Widget == "textinput" {
		sess, err := vxh.Start(40, 2, refterm.Caps{Unicode: true}, vaxis.Options{}, nil)
		if err != nil {
			w.Inconclusive("start-failed")
			return
		}
		if _, ok := sess.Sync(); !ok {
			w.Inconclusive("startup-sync-timeout")
			return
		}
		defer sess.Close()
		env = &tiEnv{sess}
	}
	runOne := func(hc hcase, sample bool) {
		if s.Widget == "textfield" {
			runTextField(w, hc, sample)
		} else {
			runTextInput(w, env, hc, sample)
		}
	}
	switch s.Kind {
	case "exhaustive":
		n := len(ops)
		k := 0
		for _, start := range starts {
			for l := 1; l <= s.Len; l++ {
				cnt := 1
				for i := 0; i < l; i++ {
					cnt *= n
				}
				idx := make([]int, l)
				for q := 0; q < cnt; q++ {
					k++
					if k%s.Of == s.Part {
						hc := hcase{Widget: s.Widget, Start: start}
						for _, x := range idx {
							hc.Ops = append(hc.Ops, ops[x])
						}
						runOne(hc, q%7919 == 0)
					}
					for j := l - 1; j >= 0; j-- {
						idx[j]++
						if idx[j] < n {
							break
						}
						idx[j] = 0
					}
				}
			}
		}
		w.Count("exhaustive_spaces", 1)
	case "random":
		for i := 0; i < s.N; i++ {
			hc := hcase{Widget: s.Widget, Start: starts[r.Intn(len(starts))]}
			pool := ops
			if s.Widget == "textfield" {
				pool = append(append([]string{}, ops...), "api-insert", "api-cursor-to-2", "api-cursor-to-99", "api-delete-right", "api-delete-left", "api-kill")
			}
			for k := 0; k < 200; k++ {
				op := pool[r.Intn(len(pool))]
				if r.Intn(3) == 0 {
					op += "~" // the alternative key binding, where there is one
				}
				hc.Ops = append(hc.Ops, op)
			}
			runOne(hc, i == 0)
		}
	}
}

func (check) Finalize(tier string, m *harness.Merged) string {
	if m.Counts["histories_textfield"] == 0 || m.Counts["histories_textinput"] == 0 || m.Counts["textinput_draws"] == 0 || m.Counts["textinput_password_draws"] == 0 {
		return "a widget was never exercised"
	}
	return ""
}

// Replay re-executes a recorded history.
func (c check) Replay(w *harness.W, raw json.RawMessage) {
	var probe map[string]json.RawMessage
	json.Unmarshal(raw, &probe)
	if j, ok := probe["journal"]; ok {
		var s string
		json.Unmarshal(j, &s)
		raw = json.RawMessage(s)
	}
	var hc hcase
	json.Unmarshal(raw, &hc)
	if hc.Widget == "textfield" {
		runTextField(w, hc, false)
		return
	}
	sess, err := vxh.Start(40, 2, refterm.Caps{Unicode: true}, vaxis.Options{}, nil)
	if err != nil {
		fmt.Println("start failed:", err)
		return
	}
	sess.Sync()
	defer sess.Close()
	runTextInput(w, &tiEnv{sess}, hc, false)
}
