#!/usr/bin/env python3
"""tools_status_table.py <sweep log> — refreshes the numbers of the status table in DESIGN.md §7.1
(evaluations and wall time per quick check) from the SUMMARY lines of a tools_sweep.sh log, and the
number of open findings per property from known_findings.json. The wording of each row is kept."""
import json, re, sys
log = open(sys.argv[1]).read()
summ = {}
for m in re.finditer(r'SUMMARY property=(C\d\d) tier=quick seed=\d+ evaluations=(\d+) distinct=\d+ violations=\d+ known=(\d+) inconclusive=\d+ wall=([\d.]+)s', log):
    summ[m.group(1)] = (int(m.group(2)), int(m.group(3)), float(m.group(4)))
def human(n):
    if n >= 1_000_000: return f'{n/1_000_000:.2f} M'.replace('.00', '')
    if n >= 10_000: return f'{n/1000:.0f} k'
    if n >= 1000: return f'{n/1000:.1f} k'
    return str(n)
p = '/verif/DESIGN.md'
s = open(p).read()
def repl(m):
    pid, cell = m.group(1), m.group(2)
    if pid not in summ: return m.group(0)
    ev, known, wall = summ[pid]
    # cell = "<number> <noun ...> / <wall>"
    mm = re.match(r'\s*[\d.]+\s*[kM]?\s+(.*?)\s*/\s*[\d.]+\s*s\s*$', cell)
    noun = mm.group(1) if mm else cell.strip()
    w = f'{wall:.0f} s' if wall >= 1 else f'{wall:.1f} s'
    return f'| {pid} | {human(ev)} {noun} / {w} |'
a, b = s.index('### 7.1 Status'), s.index('### 7.2 ')
s2 = s[:a] + re.sub(r'\| (C\d\d) \|([^|]*)\|', repl, s[a:b]) + s[b:]
open(p, 'w').write(s2)
print('rows updated:', sum(1 for k in summ))
