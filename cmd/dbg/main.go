package main

import (
	"fmt"

	"git.sr.ht/~rockorager/vaxis"

	"verif/internal/memcon"
	"verif/internal/refterm"
	"verif/internal/vxh"
)

func main() {
	for _, inband := range []bool{true, false} {
		sess, err := vxh.Start(40, 16, refterm.Caps{Unicode: true, RGB: true, Sync: true, InBand: inband, TextArea: true, KittyGfx: true, Sixel: true}, vaxis.Options{}, func(t *refterm.Terminal, c *memcon.Console) {
			t.CellW, t.CellH = 10, 20
		})
		if err != nil {
			panic(err)
		}
		evs, _ := sess.Sync()
		for _, e := range evs {
			fmt.Printf("%T %+v\n", e, e)
		}
		sess.Close()
	}
}
