package main

import (
	"fmt"

	"git.sr.ht/~rockorager/vaxis"

	"verif/internal/memcon"
	"verif/internal/refterm"
	"verif/internal/vxh"
)

func main() {
	caps := refterm.CapsFromMask(29386)
	fmt.Printf("%+v\n", caps)
	sess, err := vxh.Start(5, 4, caps, vaxis.Options{}, func(t *refterm.Terminal, c *memcon.Console) {
		c.OnWrite = func(p []byte) { fmt.Printf("  write: %s\n", refterm.Printable(p, 300)) }
	})
	if err != nil {
		panic(err)
	}
	fmt.Println("unicode", sess.Vx.CanUnicodeCore(), "explicit", sess.Vx.CanExplicitWidth())
	win := sess.Vx.Window()
	fmt.Println(win.Size())
	sess.Vx.Refresh()
	child := win.New(1, 2, 4, 1)
	child.Print(vaxis.Segment{Text: "\U0001F468‍\U0001F469‍\U0001F467"})
	sess.Vx.Render()
	sess.Vx.Close()
}
