package main

import (
	"fmt"

	"git.sr.ht/~rockorager/vaxis"
	"git.sr.ht/~rockorager/vaxis/vxfw"
	"git.sr.ht/~rockorager/vaxis/vxfw/text"
)

func main() {
	ctx := vxfw.DrawContext{Characters: vaxis.Characters, Max: vxfw.Size{Width: 1, Height: 10}}
	s := "a你\n "
	sc := text.NewSoftwrapScanner(s, 1)
	for sc.Scan(ctx) {
		fmt.Printf("line %q\n", sc.Text())
	}
	t := text.New(s)
	sf, _ := t.Draw(ctx)
	fmt.Println(sf.Size)
	for i, c := range sf.Buffer {
		fmt.Printf("%d %q\n", i, c.Grapheme)
	}
}
