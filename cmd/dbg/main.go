package main

import (
	"encoding/json"
	"fmt"
	"os"

	"git.sr.ht/~rockorager/vaxis"
	"git.sr.ht/~rockorager/vaxis/vxfw"
	vlist "git.sr.ht/~rockorager/vaxis/vxfw/list"
)

type item struct{ idx, h int }

func (it *item) HandleEvent(vaxis.Event, vxfw.EventPhase) (vxfw.Command, error) { return nil, nil }
func (it *item) Draw(ctx vxfw.DrawContext) (vxfw.Surface, error) {
	return vxfw.NewSurface(5, uint16(it.h), it), nil
}

func main() {
	b, _ := os.ReadFile(os.Args[1])
	var f struct {
		Violation struct {
			Case struct {
				Heights []int
				Gap     int
				Gutter  bool
				W, H    int
				Ops     []struct {
					Op string
					A  int
					B  []int
				}
			}
		}
	}
	json.Unmarshal(b, &f)
	c := f.Violation.Case
	heights := c.Heights
	d := &vlist.Dynamic{Gap: c.Gap, DrawCursor: c.Gutter}
	d.Builder = func(i uint, cursor uint) vxfw.Widget {
		if int(i) >= len(heights) {
			return nil
		}
		return &item{int(i), heights[i]}
	}
	for i, o := range c.Ops {
		switch o.Op {
		case "next":
			d.NextItem()
		case "prev":
			d.PrevItem()
		case "key-j":
			d.CaptureEvent(vaxis.Key{Keycode: 'j', Text: "j"})
		case "key-up":
			d.CaptureEvent(vaxis.Key{Keycode: vaxis.KeyUp})
		case "set-cursor":
			if len(heights) > 0 {
				d.SetCursor(uint(o.A % len(heights)))
			}
		case "set-cursor-any":
			d.SetCursor(uint(o.A))
		case "wheel-down":
			d.HandleEvent(vaxis.Mouse{Button: vaxis.MouseWheelDown}, vxfw.TargetPhase)
		case "wheel-up":
			d.HandleEvent(vaxis.Mouse{Button: vaxis.MouseWheelUp}, vxfw.TargetPhase)
		case "resize":
			c.W, c.H = o.A%13, (o.A/13)%10
		case "pending":
			d.SetPendingScroll(o.A)
		case "set-items":
			heights = o.B
			if len(heights) > 0 && int(d.Cursor()) >= len(heights) {
				d.SetCursor(uint(len(heights) - 1))
			} else if len(heights) == 0 {
				d.SetCursor(0)
			}
		}
		s, _ := d.Draw(vxfw.DrawContext{Max: vxfw.Size{Width: uint16(c.W), Height: uint16(c.H)}, Characters: vaxis.Characters})
		fmt.Printf("%2d %-10s %v cursor=%d off=%d heights=%v kids:", i, o.Op, o.A, d.Cursor(), d.Offset(), heights)
		for _, k := range s.Children {
			if it, ok := k.Surface.Widget.(*item); ok {
				fmt.Printf(" [%d r%d h%d]", it.idx, k.Origin.Row, k.Surface.Size.Height)
			}
		}
		fmt.Println()
	}
}
