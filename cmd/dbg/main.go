package main

import (
	"fmt"
	"os"
	"time"

	"git.sr.ht/~rockorager/vaxis"

	"verif/internal/memcon"
	"verif/internal/refterm"
	"verif/internal/vxh"
)

func main() {
	mode := os.Args[1]
	caps := refterm.CapsFromMask(0x1ffff)
	sess, err := vxh.Start(40, 10, caps, vaxis.Options{}, func(t *refterm.Terminal, c *memcon.Console) {
		if mode == "appid" {
			t.AppID = "prior;app"
		}
	})
	if err != nil {
		panic(err)
	}
	sess.Sync()
	var before map[string]string
	switch mode {
	case "close-suspended":
		sess.Vx.Suspend()
		done := make(chan struct{})
		go func() { sess.Vx.Close(); close(done) }()
		select {
		case <-done:
			fmt.Println("Close returned")
		case <-time.After(5 * time.Second):
			fmt.Println("Close after Suspend HANGS")
		}
	default:
		_ = before
		sess.Vx.Close()
		sess.Con.With(func() {
			fmt.Println("mode2027 set:", sess.Term.Modes[2027], "appid:", sess.Term.AppID)
		})
	}
}
