package main

import (
	"encoding/json"
	"fmt"
	"os"

	"git.sr.ht/~rockorager/vaxis"

	"verif/internal/evp"
	"verif/internal/harness"
)

func main() {
	b, _ := os.ReadFile(os.Args[1])
	var d struct {
		Violation struct {
			Case []struct {
				Bytes string `json:"bytes"`
			} `json:"case"`
		} `json:"violation"`
	}
	json.Unmarshal(b, &d)
	p, err := evp.New(0, vaxis.Options{})
	if err != nil {
		panic(err)
	}
	for _, e := range d.Violation.Case {
		evs, ok := p.Decode([][]byte{[]byte(e.Bytes)})
		if !ok {
			fmt.Printf("STUCK at %q evs=%#v\n", e.Bytes, evs)
			fmt.Println(harness.AllStacks())
			return
		}
	}
	fmt.Println("all ok")
}
