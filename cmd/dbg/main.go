package main

import (
	"fmt"
	"strings"
	"time"

	"git.sr.ht/~rockorager/vaxis"
	"git.sr.ht/~rockorager/vaxis/vxfw"
	"git.sr.ht/~rockorager/vaxis/vxfw/richtext"
	"git.sr.ht/~rockorager/vaxis/vxfw/text"
)

func main() {
	for _, n := range []int{400, 800, 1600, 3200} {
		c := strings.Repeat("0123456789 ", n)
		for _, w := range []uint16{2, 16, 80} {
			ctx := vxfw.DrawContext{Characters: vaxis.Characters, Max: vxfw.Size{Width: w, Height: 65535}}
			t0 := time.Now()
			rt := richtext.New([]vaxis.Segment{{Text: c}})
			rt.Draw(ctx)
			d1 := time.Since(t0)
			t0 = time.Now()
			text.New(c).Draw(ctx)
			fmt.Println(n, w, "rich", d1, "text", time.Since(t0))
		}
	}
}
