package main

import (
	"fmt"
	"os"
	"sync"

	"git.sr.ht/~rockorager/vaxis"

	"verif/internal/harness"
	"verif/internal/refterm"
	"verif/internal/vxh"
)

func one(i int) bool {
	caps := refterm.CapsFromMask(0x1ffff)
	sess, err := vxh.Start(80, 27, caps, vaxis.Options{}, nil)
	if err != nil {
		panic(err)
	}
	if _, ok := sess.Sync(); !ok {
		fmt.Println("startup sync fail")
		os.WriteFile("/tmp/dbg-stacks.txt", []byte(harness.AllStacks()), 0o644)
		return false
	}
	sess.Vx.Render()
	sess.Con.SetSize(5, 5)
	evs, ok := sess.Sync()
	if !ok {
		fmt.Println("sync fail")
		return false
	}
	sess.Vx.Render()
	w, h := sess.Vx.Window().Size()
	if w != 5 || h != 5 {
		fmt.Printf("iter %d: window %dx%d evs=%#v\n", i, w, h, evs)
		return false
	}
	sess.Close()
	return true
}

func main() {
	var wg sync.WaitGroup
	bad := 0
	var mu sync.Mutex
	for g := 0; g < 32; g++ {
		wg.Add(1)
		go func(g int) {
			defer wg.Done()
			for i := 0; i < 200; i++ {
				if !one(g*1000 + i) {
					mu.Lock()
					bad++
					mu.Unlock()
				}
			}
		}(g)
	}
	wg.Wait()
	fmt.Println("bad:", bad)
}
