// vcheck is the single driver/worker binary for all property checks.
package main

import (
	"fmt"
	"os"
	"path/filepath"
	"sort"
	"strconv"

	"verif/internal/harness"

	_ "verif/checks"
)

func main() {
	args := os.Args[1:]
	if len(args) >= 1 && args[0] == "--worker" {
		if len(args) != 6 {
			fmt.Fprintln(os.Stderr, "usage: vcheck --worker ID tier batchjson out journal")
			os.Exit(3)
		}
		c := harness.Lookup(args[1])
		if c == nil {
			fmt.Fprintln(os.Stderr, "unknown check", args[1])
			os.Exit(3)
		}
		harness.WorkerMain(c, args[2], args[3], args[4], args[5])
		return
	}
	if len(args) >= 1 && args[0] == "--emit" {
		emitMain(args[1:])
		return
	}
	if len(args) < 2 {
		ids := harness.IDs()
		sort.Strings(ids)
		fmt.Fprintln(os.Stderr, "usage: vcheck <ID> <quick|thorough> [--batch name]\nregistered:", ids)
		os.Exit(3)
	}
	c := harness.Lookup(args[0])
	if c == nil {
		fmt.Fprintln(os.Stderr, "unknown check", args[0])
		os.Exit(3)
	}
	tier := args[1]
	if tier != "quick" && tier != "thorough" {
		fmt.Fprintln(os.Stderr, "tier must be quick or thorough")
		os.Exit(3)
	}
	o := harness.DriverOpts{Tier: tier, Seed: 1}
	if s := os.Getenv("VERIF_SEED"); s != "" {
		if v, err := strconv.ParseInt(s, 10, 64); err == nil {
			o.Seed = v
		}
	}
	if s := os.Getenv("VERIF_JOBS"); s != "" {
		o.Jobs, _ = strconv.Atoi(s)
	}
	o.Root = os.Getenv("VERIF_ROOT")
	if o.Root == "" {
		o.Root = "/verif"
	}
	self, _ := os.Executable()
	o.Self = self
	race := filepath.Join(filepath.Dir(self), "vcheck-race")
	if _, err := os.Stat(race); err == nil {
		o.SelfRace = race
	}
	for i := 2; i < len(args); i++ {
		switch args[i] {
		case "--batch":
			if i+1 < len(args) {
				o.OnlyBatch = args[i+1]
				i++
			}
		case "--replay":
			if i+1 < len(args) {
				o.Replay = args[i+1]
				i++
			}
		}
	}
	os.Exit(harness.DriverMain(c, o))
}
