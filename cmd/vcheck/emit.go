package main

import (
	"encoding/hex"
	"os"
)

// emitMain is the child program used by real-PTY runs: it writes the given
// hex-encoded bytes to stdout and exits.
func emitMain(args []string) {
	for _, a := range args {
		b, err := hex.DecodeString(a)
		if err != nil {
			os.Exit(4)
		}
		os.Stdout.Write(b)
	}
}
